#!/bin/bash
# MANIFEST.setup_cmd: build the framework from files on disk only (offline).
set -eu
ROOT="$(cd "$(dirname "$0")" && pwd)"
cd "$ROOT"
export CARGO_NET_OFFLINE=true
mkdir -p target evidence
(cd harness && cargo build --release 2>&1 | tail -n 3)
(cd /repo && RUSTFLAGS="--cfg dandavison_delta_verif -C overflow-checks=on" cargo build --release --offline --target-dir "$ROOT/target/bin" 2>&1 | tail -n 3)
# the libFuzzer target of the coverage-guided (thorough) tier; optional: ./check rebuilds it when needed
(cd harness && RUSTFLAGS="--cfg dandavison_delta_verif -C overflow-checks=on" cargo +nightly fuzz build -s none -O --fuzz-dir fuzz fuzz_prop 2>&1 | tail -n 2) || echo "note: libFuzzer target not built"
cp harness/target/release/stubtool target/stubtool
mkdir -p target/shim && cc -shared -fPIC -O1 -o target/shim/writefail.so shim/writefail.c -ldl
echo "setup done"
