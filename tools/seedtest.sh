#!/bin/bash
# tools/seedtest.sh <patch file> <check id>...   apply a seeded change to /repo, run the checks, revert.
# Prints one line per check: "<patch> <id> CAUGHT|missed|broken rc=<n> <first violation signature>"
patch=$1; shift
cd /repo || exit 2
if [ -n "$(git status --porcelain)" ]; then echo "/repo not clean" >&2; exit 2; fi
if ! git apply "$patch"; then echo "$patch does not apply" >&2; exit 2; fi
for id in "$@"; do
  out=$(cd /verif && VERIF_SEED=${VERIF_SEED:-0} ./check $id --tier quick 2>&1); rc=$?
  sig=$(echo "$out" | grep -m1 "signature:" | sed 's/^ *signature: //' | cut -c1-110)
  case $rc in 1) v=CAUGHT;; 0) v=missed;; *) v=broken;; esac
  echo "$patch $id $v rc=$rc $sig"
done
git -C /repo checkout -- .
