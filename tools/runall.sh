#!/bin/bash
# run every claimed check (quick tier) once and summarise
cd /verif
for id in $(python3 -c "import json; print(' '.join(c['property_id'] for c in json.load(open('MANIFEST.json'))['checks']))"); do
  out=$(VERIF_SEED=${VERIF_SEED:-0} ./check $id --tier ${1:-quick} 2>&1); rc=$?
  echo "$id rc=$rc $(echo "$out" | grep -c '^KNOWN-FINDING') known | $(echo "$out" | grep -v '^KNOWN' | tail -n 1 | cut -c1-150)"
  echo "$out" | grep -E "^VIOLATION|INFRASTRUCTURE" | head -5
done
