#!/bin/bash
# tools/confirm_seed.sh <Cnn> <k> [worktree]   confirm a sub-agent's seeded change myself and store it:
#  - the patch is what is applied in the worktree and applies cleanly to /repo
#  - the unedited test suite passes with it (cargo test --offline in the worktree)
#  - its demonstration fails with the change (exit 1) and passes without it (exit 0; the agent's
#    unchanged build AND /verif's build of /repo)
# then copies patch/demo/meta to seeded/<Cnn>/*_<k>.* (meta gains a "confirmed" block) and removes the worktree.
id=$1; k=$2; wt=${3:-/tmp/wt/${id}r${k}}
S=$wt/SEED
[ -f $S/patch.diff ] || { echo "$id: no patch.diff"; exit 2; }
cd $wt || exit 2
if ! diff -q <(git diff -- src) $S/patch.diff >/dev/null; then
  echo "$id: note: SEED/patch.diff differs from the worktree diff; using the worktree diff"; git diff -- src > $S/patch.diff
fi
git -C /repo apply --check $S/patch.diff || { echo "$id: patch does not apply to /repo"; exit 1; }
tr=$(cargo test --offline 2>&1 | grep -E "^test result|FAILED|failed" | tr '\n' ' ' | cut -c1-400)
echo "$id tests: $tr"
case "$tr" in *" 0 failed"*) tests_ok=true;; *) tests_ok=false;; esac
echo "$tr" | grep -q "FAILED" && tests_ok=false
cargo build --offline >/dev/null 2>&1
chmod +x $S/demo.sh
(cd $S && timeout 300 ./demo.sh $wt/target/debug/delta >$S/run_patched.log 2>&1); rc_p=$?
(cd $S && timeout 300 ./demo.sh $S/delta.orig >$S/run_orig.log 2>&1); rc_o=$?
(cd $S && timeout 300 ./demo.sh /verif/target/bin/release/delta >$S/run_verif.log 2>&1); rc_v=$?
echo "$id demo: patched rc=$rc_p  agent-orig rc=$rc_o  verif-build rc=$rc_v  tests_ok=$tests_ok"
if [ "$tests_ok" = true ] && [ $rc_p -eq 1 ] && [ $rc_o -eq 0 ] && [ $rc_v -eq 0 ]; then
  mkdir -p /verif/seeded/$id
  cp $S/patch.diff /verif/seeded/$id/patch_$k.diff
  cp $S/demo.sh /verif/seeded/$id/demo_$k.sh
  cp $S/demo.md /verif/seeded/$id/demo_$k.md
  python3 - "$S/meta.json" "/verif/seeded/$id/meta_$k.json" "$tr" <<'E'
import json,sys
try: m=json.load(open(sys.argv[1]))
except Exception as e: m={"summary":"(meta.json unreadable: %s)"%e}
m["confirmed"]={"by":"tools/confirm_seed.sh","cargo_test_with_change":sys.argv[3].strip(),"demo_with_change_exit":1,"demo_without_change_exit":0,"demo_on_verif_build_of_repo_exit":0}
json.dump(m,open(sys.argv[2],"w"),indent=1,ensure_ascii=False)
E
  echo "$id: KEPT as seeded/$id/*_$k"
  cd /; git -C /repo worktree remove --force $wt
else
  echo "$id: NOT confirmed (kept worktree for inspection)"; exit 1
fi
