#!/usr/bin/env python3
"""Regenerates /verif/MANIFEST.json from the table below (kept valid at all times)."""
import json, subprocess, os
ROOT = os.path.dirname(os.path.dirname(os.path.abspath(__file__)))
props = [json.loads(l) for l in open(os.path.join(ROOT, 'properties.jsonl'))]

# property id -> (technique, level text, level note, design ref)
CLAIMED = {
 'C03': ('proptest-driven structured mutation fuzzing (grammar streams x mutators x edge option sets), crash/exit oracle, binary cross-check',
         'Exploration: tens of thousands of generated (input, option set, calling-process) cases per run are executed in-process with panics, process exits and worker deaths attributed to the case; a sample is replayed through the real binary whose exit status and stderr are judged. A crash is a counterexample; silence means no crash in the explored sample, not absence.',
         'Trusted: the include!-built library behaves like the binary (cross-checked every run); option values generated valid by construction; hang detection by supervisor watchdog only.', '3/C03'),

 'C01': ('proptest-generated diffs x tagged option sets; independent terminal model + reference expected-text function; sequence equality oracle',
         'Exploration: every generated hunk line must appear exactly once, in order, with the expected text and under its own file header, as read back from the rendered cells by an independent terminal model (elements identified by reserved background tags).',
         'Trusted: terminal model, reference expected-text function, tag attribution; merge-conflict regions of combined diffs are generated (two comparisons against the ancestor expected).', '3/C01'),
 'C10': ('proptest-generated section sequences; metamorphic concatenation law + repeat-run determinism (in-process and real binary)',
         'Exploration: delta(S1..Sn) must equal delta(S1)..delta(Sn) byte for byte for generated sequences of git file sections of every kind under all modes; the same case is re-run with fresh hash states and in separate processes and must give identical bytes (also --show-config).',
         'Trusted: section generator emits complete git file diffs; max-line-length kept above header lines.', '3/C10'),

 'C14': ('proptest-generated sections over the path grammar x tagged option sets with unique label tokens; header rows identified by tag; count/order/containment oracle',
         'Exploration: the rows painted with file-style must be exactly one per section, in order, naming the path(s), the configured event label, mode change and binary-ness; the rows painted with hunk-header-style exactly one per hunk with something to show, carrying git\'s code fragment, the path and the new-file start when requested.',
         'Trusted: terminal model and tag attribution; containment (not equality) of paths/labels; git-quoted paths not generated.', '3/C14'),

 'C02': ('proptest-generated git streams (plain or coloured by an independent colouriser) x option sets containing color-only; line-count equality + per-line visible-text equality via terminal model',
         'Exploration: for every generated stream and option set with color-only, the number of output lines equals the number of input lines; unless an option that the mode presets is explicitly set, the visible text of every output line equals that of the corresponding input line.',
         'Trusted: terminal model; syntactic override rule (errs towards count-only); lines kept below max-line-length.', '3/C02'),

 'C04': ('proptest-generated marker-free text streams with sentinels, alone and interleaved with rendered sections; byte-identity oracle with independently computed permitted transforms',
         'Exploration: free text (with escape sequences, CR variants, invalid UTF-8, NUL) must come out byte for byte (after CR normalisation / lossy UTF-8), exactly once, in order, and correctly interleaved with the rendered sections, under all option sets.',
         'Trusted: marker set derived from handler gates; constructive CR cases; lines built around max-line-length: longer in bytes only must pass unchanged, wider ones must show prefix + mark.', '3/C04'),

 'C05': ('proptest-generated two-way diffs x tagged option sets with number-format grammar; reference line counter; gutter cells read by tag',
         'Exploration: the integers shown in the number cells of every rendered row must equal what an independent old/new counter gives for that hunk line (both views, all generated formats); continuation rows carry none; hunk-header rows show the new-file start and the path.',
         'Trusted: terminal model, tag attribution of gutter cells, reference counter; side-by-side formats restricted to {nm} left / {np} right.', '3/C05'),

 'C07': ('proptest-generated boundary-straddling diffs x tagged side-by-side option sets; panels split at the gutters; geometry invariants + fragment reassembly oracle',
         'Exploration: for every generated case the decoded side-by-side rows must respect the configured width, a fixed right-panel column, side exclusivity of removed/added styling, lossless reassembly of every wrapped line per side, truncation only after all allowed rows (with mark and prefix), and row sharing of paired lines at maximal distance.',
         'Trusted: terminal model and unicode-width tables; line numbers on with {nm} left / {np} right formats; a quarter of the workers run with a pseudo-terminal as stdout (ansi fill); gutters without a number placeholder are judged per side as a whole.', '3/C07'),

 'C06': ('exhaustive enumeration of all string pairs up to length 4 over a 4-symbol alphabet + proptest-generated realistic sub-hunks; cell classes read by tag; edit-validity / pairing oracle',
         'Exploration with an exhaustive small scope: every ordered pair of strings of length <= 4 over {a,b,blank,;} (116 281 pairs at the default distance, a third of them at distances 0 and 1) plus thousands of random sub-hunks must satisfy: un-emphasised text equal on both lines of a pair, no emphasis on unpaired/unchanged/identical lines, single contiguous stretch for single-run edits, balanced pairing, i-th-with-i-th at distance 1, whitespace-only differences at distance 0.',
         'Trusted: terminal model; paired <=> painted with emph/non-emph styles (tagged family); whitespace-error cells count as emphasised.', '3/C06'),

 'C08': ('metamorphic: proptest-generated diffs rendered plain and coloured by an independent colouriser must give identical bytes; moved-line renditions compared cell by cell via the terminal model',
         'Exploration: for generated diffs and all rendering modes, colouring the input with git\'s default palette must not change a single output byte (raw-styled commit lines excepted, which must keep their input bytes); changed lines carrying another rendition must be painted with exactly that rendition (or the map-styles target) on every character.',
         'Trusted: colouriser reproduces git\'s sequences; terminal model; reference style parser; no cancel codes inside moved lines.', '3/C08'),
 'C09': ('proptest-generated diff/grep/blame streams (plain, coloured, moved-line renditions) under narrow/truncating/wrapping/hyperlink option sets; terminal-model line-state oracle',
         'Exploration: at every newline of the output the rendition must be the default one, no OSC 8 hyperlink open, no escape sequence cut, and no control function other than SGR/EL/OSC 8 present.',
         'Trusted: terminal model; input sequences balanced by construction.', '3/C09'),

 'C15': ('metamorphic: same diff rendered under two syntax themes / two file names of one language / hunk alone vs in context; cell-by-cell comparison via terminal model and tags',
         'Exploration: switching the syntax theme may change nothing but foregrounds of cells whose element style asks for `syntax`; other cells keep exactly their configured foreground; renaming within a language, the default-language fallback and rendering a hunk alone leave the hunk rows cell-for-cell unchanged.',
         'Trusted: terminal model, tag attribution, reference style parser; syntect grammars not judged.', '3/C15'),
 'C19': ('metamorphic (with/without --hyperlinks) + URL oracle: proptest-generated diffs x link templates x cwd/GIT_PREFIX/relative-paths under two calling-process identities',
         'Exploration: stripping OSC 8 sequences must give the no-hyperlinks output byte for byte; links are balanced per line; every file link equals the template instantiated with the normalised absolute path of the row\'s section and the displayed number; every commit link equals the commit template instantiated with the linked text.',
         'Trusted: terminal model, tag attribution; directory rule from the code comments of src/utils/path.rs; remote-derived URLs not covered.', '3/C19'),

 'C12': ('exhaustive enumeration of palette numbers / named pairs / attribute subsets + proptest-generated style strings, each set on one of 25 style options with a rendering site; independent reference parser; show-config round trip',
         'Exploration with exhaustive small scope: every enumerated and generated style string, set on a style-typed option, must paint the option\'s rendering site (found by unique probe tokens) with exactly the rendition an independent parser of git\'s colour language gives, in 24-bit and 256-colour mode; the value printed by --show-config must reproduce the rendering.',
         'Trusted: reference parser written from delta --help; ansi_colours nearest-palette function; terminal model; probe inputs.', '3/C12'),
 'C13': ('proptest-generated placements of marker values over all configuration sources and feature graphs; reference resolver of the documented precedence; observation through show_config; repeat-run determinism',
         'Exploration: for generated placements over command line, main section, GIT_CONFIG_PARAMETERS, custom and builtin features, DELTA_FEATURES and feature flags, an independent resolver of the documented order must predict the value --show-config reports for each of 16 observed options of every value type; repeated constructions agree; --no-gitconfig equals an empty configuration.',
         'Trusted: reference resolver (documented order + ordering comment of gather_features for nesting and command-line flag order); builtin feature definitions learnt from delta in the simplest setting.', '3/C13'),
 'C16': ('proptest-generated grep/ripgrep streams (git grep, grep -n, rg --json and plain rg) x tagged grep option sets; one-row-per-hit / path / number / code oracle via terminal model',
         'Exploration: every generated hit must give exactly one rendered row (classic and ripgrep layouts) showing its path, its line number and its code unchanged, match rows and context rows painted with their own styles, submatches highlighted exactly where the input says; section headers once per file in ripgrep layout.',
         'Trusted: terminal model and tag attribution; paths/code restricted so that the generated line has one reading (see known findings for the ambiguous ones).', '3/C16'),
 'C17': ('proptest-generated blame streams from a model history x palettes x blame/separator formats; per-row code/number/attribution oracle; colour invariants over the row sequence',
         'Exploration: every blame line must give one row with the code unchanged, the line number as the separator format dictates and the attribution (commit, author, formatted time) shown or blanked with equal width on repeats; rows of equal consecutive attribution share a colour, differing neighbours never do, and a commit keeps its colour when it reappears unless the line above has it.',
         'Trusted: terminal model, tag attribution; fixed timestamp output format; git-coloured blame lines not generated.', '3/C17'),
 'C11': ('proptest-generated diffs with sentinel lines fed one line per request through a recording reader/writer pair (every prefix judged); lag and prefix oracles; the same probes on the real binary over pipes',
         'Exploration over inputs and every prefix of their lines: at each point where delta asks for the next line, every hunk line before the open run of removed/added lines must already be written, at most N+1 lines may be held back, the section header must be out, and what is written must be a prefix of the output for that input prefix alone and of the final output; a sample of streams is fed to the real binary line by line over pipes and judged by the same rule once the process blocks in read(0).',
         'Trusted: sentinel visibility = line written; quiescence of the binary read from /proc/<pid>/syscall, the stdin pipe being empty and the context-switch counter; --paging=never for the pipe probes; merge-conflict regions not generated.', '3/C11'),
 'C18': ('fault injection on the real binary: LD_PRELOAD shim enumerates every write call towards the consumer (EPIPE from call n on), real closed pipes and quitting pagers; stub pagers/commands; reference model of pager selection; generated inputs and option sets',
         'Fault enumeration: for generated scenarios (stdin to stdout, stdin to pager, wrapped git/rg command, two files, informational commands, pager-selection environments) the write calls delta makes towards its consumer are counted and then each one in turn (all up to 30 per scenario, sampled beyond; 400 in the thorough tier) is made to fail with EPIPE together with all later ones; the exit status, stderr, delivered bytes, the started pager with its arguments and input, and the order of exits are judged against the statement.',
         'Trusted: shim (write/writev of the process named delta), stub tools, 15 ms exit stamp of the stub pager; real git only for `delta A B`.', '3/C18'),
 'C20': ('forced thread schedules on the real binary through guarded ordering points (environment-sequenced), generated scenarios x inputs x schedule positions; reference model of the lock/condvar protocol; differential oracle against the schedule "background thread first" and a neutral parent process',
         'Exploration over schedules: for generated scenarios (the calling process is guessed from the parent: git grep / rg / git blame / git show REV:file / git diff --word-diff; or known: delta rg / delta git grep / delta git blame under a parent of another kind) the background thread\'s critical section is forced in front of, between and (by contention) inside every critical section of the main thread (publication of the known command, each query), with early and late thread start; every run must exit 0 in time and render byte-identically to the reference schedule; the recorded trace must show that the schedule was realised.',
         'Trusted: the ordering points only delay; the answer a query got is observed through rendering that depends on it; races between two ordering points are left to the OS (both outcomes are legal interleavings); x86-64 memory model.', '3/C20'),
}
hook_commits = subprocess.check_output(['git','-C','/repo','log','--format=%H','--grep','^verif hook:'],text=True).split()
checks = []
for p in props:
    if p['id'] in CLAIMED:
        tech, text, note, ref = CLAIMED[p['id']]
        level = 'fault_enumeration' if p['id'] == 'C18' else 'exploration'
        if p['id'] not in ('C18', 'C20'):
            raw = {'C03': ' plus a raw decoder (C03R: option-set header + stdin bytes)', 'C04': ' plus a raw decoder (C04R: marker-free text, stdout = lossy(stdin))', 'C09': ' plus a raw decoder (C09R: hostile text without control bytes)'}.get(p['id'], '')
            tech += '; thorough tier: coverage-guided libFuzzer campaign (cargo-fuzz target fuzz_prop: bytes -> choice tape -> the same generator and oracle in-target' + raw + '), every recorded failure confirmed by replay in the release build and shrunk'
        checks.append({
            'property_id': p['id'],
            'quick_cmd': f"./check {p['id']} --tier quick",
            'thorough_cmd': f"./check {p['id']} --tier thorough",
            'evidence_file': f"evidence/{p['id']}.json",
            'replay_cmd_template': f"./check {p['id']} --replay {{path}}",
            'engine': 'vcheck',
            'level_claimed': {'category': level, 'text': text, 'design_ref': f'DESIGN.md §{ref}'},
            'level_note': note,
            'technique': tech,
        })
na = [{'property_id': p['id'], 'reason': 'check not yet built in this round (property-based testing applies; see DESIGN.md §3)'} for p in props if p['id'] not in CLAIMED]
m = {
 'version': 1,
 'setup_cmd': './setup.sh',
 'hooks': {
   'guard': 'dandavison_delta_verif',
   'enable': 'RUSTFLAGS="--cfg dandavison_delta_verif" (set in harness/.cargo/config.toml for the in-process view and by ./check for the binary build)',
   'baseline_off_cmd': 'cd /repo && cargo test --workspace --no-fail-fast --offline',
   'source_commits': hook_commits,
   'add_only': True,
 },
 'engines': [{'name': 'vcheck', 'path': 'harness/vcheck', 'serves_properties': sorted(CLAIMED), 'kind_free_text': 'proptest-driven choice-tape generators + independent oracles (terminal model, reference functions), supervisor/worker processes, real-binary cross-check; the same generators and oracles driven by libFuzzer (harness/fuzz, target fuzz_prop) in the thorough tier'}],
 'checks': checks,
 'not_applicable': na,
 'notes': 'All checks: VERIF_SEED (default 0) and VERIF_TIER honoured; exit 0 held / 1 VIOLATION / 2 infrastructure. Known findings in known_findings.json (read-only at run time). VERIF_FUZZ_SECS=<n> sets the wall-clock budget of the coverage-guided phase (default: 0 in the quick tier, 240 s - C03 420 s - in the thorough tier; not applicable to C18/C20, which are decided on separate processes). seeded/ holds sub-agent-made breaking changes with their demonstrations; DESIGN.md §12 records which check catches which.',
}
json.dump(m, open(os.path.join(ROOT, 'MANIFEST.json'), 'w'), indent=1)
print('claimed', sorted(CLAIMED), 'hooks', hook_commits)
