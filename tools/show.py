#!/usr/bin/env python3
import json,sys
d=json.load(open(sys.argv[1]))
print('SIG',d['signature']); print('MSG',d['message'][:1200])
det=d.get('detail') or {}
c=det.get('case',{})
print('ARGV',' '.join(a for a in c.get('argv',[]) if ('style' not in a or 'hunk-header-style' in a or a.endswith('omit') or 'raw' in a)))
print('--- input'); print(c.get('input_printable','')[:int(sys.argv[2]) if len(sys.argv)>2 else 1500])
if 'output_printable' in det and len(sys.argv)>3:
    print('--- output'); print(det['output_printable'][:int(sys.argv[3])])
