#!/bin/bash
# tools/seedmatrix.sh [id ...]   apply every seeded change (seeded/<id>/patch_*.diff) to /repo in turn, run that
# property's quick check (plus any ids listed in meta "also"), revert; writes seeded/matrix.tsv:
#   <id> <patch> <check> CAUGHT|missed|broken <rc> <seconds> <first violation signature>
V=${VERIF_DIR:-/verif}; REPO=${VERIF_REPO:-/repo}   # (a scratch pair can be given so that /repo stays untouched)
cd $V || exit 2
IDS=${*:-$(ls seeded | grep '^C')}
OUT=seeded/matrix.tsv
TMP=$(mktemp)
[ -f $OUT ] && cp $OUT $TMP
for id in $IDS; do
  for p in seeded/$id/patch_${ONLY:-*}.diff; do
    [ -f "$p" ] || continue
    if [ -n "$(git -C $REPO status --porcelain)" ]; then echo "$REPO not clean" >&2; exit 2; fi
    if ! git -C $REPO apply "$V/$p"; then echo "$id $p - broken 2 0 does-not-apply" >> $TMP; continue; fi
    for chk in $id; do
      t0=$(date +%s)
      out=$(VERIF_SEED=${VERIF_SEED:-0} ./check $chk --tier quick 2>&1); rc=$?
      t1=$(date +%s)
      sig=$(echo "$out" | grep -m1 "signature:" | sed 's/^ *signature: //' | tr '\t' ' ' | cut -c1-140)
      case $rc in 1) v=CAUGHT;; 0) v=missed;; *) v=broken;; esac
      grep -v "^$id	$p	$chk	" $TMP > $TMP.2; mv $TMP.2 $TMP
      printf '%s\t%s\t%s\t%s\t%s\t%s\t%s\n' "$id" "$p" "$chk" "$v" "$rc" "$((t1-t0))" "$sig" >> $TMP
      echo "$id $p $chk $v rc=$rc $((t1-t0))s $sig"
    done
    git -C $REPO checkout -- .
  done
done
sort $TMP > $OUT; rm -f $TMP
# leave the evidence files as the unchanged tree wrote them
git checkout -- evidence 2>/dev/null
