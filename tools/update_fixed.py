#!/usr/bin/env python3
"""Rewrites the `fixed` list of known_findings.json from the table below, looking up the current
hash of each fix commit in /repo by its subject (hashes change when the fix series is rebased)."""
import json, subprocess, os
ROOT = os.path.dirname(os.path.dirname(os.path.abspath(__file__)))
FIXES = [
 ('C03','background-filled line is wider','paint.rs: context line with a background wider than the terminal underflowed the space fill (panic)'),
 ('C03','empty "diff --git " line','diff_header.rs: `diff --git ` with nothing after it indexed an empty vector (panic)'),
 ('C03','grep line number 0','grep.rs: grep line number 0 underflowed `n - 1` (panic with overflow checks)'),
 ('C03','blame metadata containing','blame.rs: double-width characters in blame metadata underflowed the padding computation (panic)'),
 ('C03','out-of-range numbers or without','hunk_header.rs: numbers beyond usize / hunk header without coordinates (`@@ foo @@`) panicked (unwrap, index on empty vector; also line_numbers.rs:191)'),
 ('C03','hunk start plus length','line_numbers.rs: hunk start + length overflowed (panic with overflow checks)'),
 ('C03','submatch offsets that are not','grep.rs: rg --json submatch offsets out of range / inside a character / overlapping panicked while slicing'),
 ('C03','counters saturate','line_numbers.rs: line-number counters overflowed at usize::MAX (panic with overflow checks)'),
 ('C03','combined-diff prefix is cut','hunk.rs: multi-byte character inside the combined-diff prefix columns panicked (slice inside a character)'),
 ('C03','grep code-style sections','grep.rs: coloured grep line whose prefix ends inside a multi-byte character panicked (slice inside a character)'),
 ('C03','several intermediates','ansi/iterator.rs: CSI with several intermediates was swallowed, shifting all later offsets; slicing then cut a multi-byte character (panic)'),
 ('C03','containing invalid UTF-8 too',"delta.rs: lines with invalid UTF-8 kept their escape sequences in the 'stripped' line; style sections then mismatched the text (panic in superimpose_style_sections)"),
 ('C03','wrapping always makes progress','wrapping.rs: --wrap-max-lines=unlimited with a two-column panel and a double-width character looped forever allocating rows (hang, runaway allocation)'),
 ('C03','does not fit usize is not parsed',"grep.rs: grep line whose line number overflows usize was parsed with the number 'absent', misaligning style sections (panic in superimpose_style_sections)"),
 ('C01','emit buffered hunk lines before writing a file header','diff_header.rs: the file header of a hunk-less section (mode change, pure rename) was written before the buffered last removed/added lines of the previous file (also breaks C10, C14)'),
 ('C01','inside a combined diff keeps the combined state','hunk.rs: after `\\ No newline at end of file` in a combined diff the remaining hunk lines were parsed as two-way lines (wrong kind, one prefix column removed instead of n)'),
 ('C10','enabled by boolean flags no longer depends on hash order','options/set.rs: priority among builtin features enabled by boolean flags in one gitconfig section followed HashMap iteration order; rendering and --show-config differed from run to run (also C13)'),
 ('C10','name printed for an ANSI colour number','color.rs: --show-config printed `bright-red` or `brightred` depending on HashMap iteration order'),
 ('C03','blame lines colored by git','blame.rs: git-coloured blame lines mixed with uncoloured ones reached delta_unreachable in get_color (exit 2)'),
 ('C03','side-by-side left line number saturates','side_by_side.rs: left line number overflowed at usize::MAX (panic with overflow checks)'),
 ('C03','single double quote','diff_header.rs: the path `"` made remove_surrounding_quotes slice [1..0] (panic)'),
 ('C03','ansi_preserving_slice does not cut','ansi/mod.rs: non-ASCII character among the prefix columns of a raw combined-diff line made ansi_preserving_slice start inside a character (panic)'),
 ('C14','in plain diff -u output is not a file header','diff_header.rs: in plain diff -u output an added line starting with `++ ` (i.e. `+++ x`) inside a hunk printed a spurious file header'),
 ('C01','that is not a submodule line is not dropped','submodule.rs: a first removed hunk line starting with `Subproject commit ` without a 40-digit hash was swallowed (not rendered at all)'),
 ('C02','also ignores decorations requested inside','options/set.rs: with --color-only, `box`/`underline`/`overline` inside commit/file/hunk-header style strings still drew decorations (three output lines for one input line)'),
 ('C02','keeps the commit line also with --commit-style omit','commit_meta.rs: --color-only --commit-style omit dropped the commit line (13 input lines -> 12 output lines)'),
 ('C02','color-only from gitconfig disables the side-by-side feature','options/set.rs: `color-only = true` in gitconfig plus side-by-side left the side-by-side feature enabled, adding a line-number gutter to every hunk line'),
 ('C04','not emptied when the maximum line length is 0','delta.rs: with max-line-length 0 (also set by side-by-side + --wrap-max-lines=unlimited) a line containing invalid UTF-8 was replaced by an empty line'),
 ('C07','truncate_str stops taking text once the width is used up','ansi/mod.rs: a side-by-side row cut in front of a double-width character inside a styled line was one column too wide, showed non-prefix text, and shifted the right panel by one column'),
 ('C19','honour --relative-paths','diff_header.rs: for sections without ---/+++ lines (mode-only, empty added/deleted file) the name from the `diff --git` line was not relativized under --relative-paths; the header showed the repository-relative name and its hyperlink pointed at <cwd>/<repo-relative name>'),
 ('C14','no second file header for a mode-only change','diff_header.rs: in `git log -p` output a mode-only file got a second, bare file header when the next commit\'s first `diff` line arrived'),
 ('C01','in front of a merge conflict stay in front','merge_conflict.rs: in a combined diff, removed/added lines directly before `++<<<<<<<` were painted after the whole conflict region (moved past it)'),
 ('C03','submatch offsets do not overflow when tabs','grep.rs: rg --json submatch offset near usize::MAX overflowed when shifted by tab expansion (panic with overflow checks)'),
 ('C09','multi-line matches in rg --json','grep.rs: a multi-line rg --json match was painted as one line with the newlines inside the styled text: renditions leaked across line ends, later lines lacked path and number (also C16)'),
 ('C18','--version, --help and --show-config exit quietly','main.rs: with a closed stdout / a pager that quit, --version, --help, -h and --show-config exited with status 1 and printed `Error: Os { code: 32, kind: BrokenPipe, .. }`'),
 ('C18','--parse-ansi does not panic','parse_ansi.rs: println! panicked (exit 101) when stdout was closed'),
 ('C18','--generate-completion does not panic','generate_completion.rs: clap_complete panicked (`Failed to write to generated file`, exit 101) when stdout was closed'),
 ('C12',"'hidden' attribute is included when a style is printed","style.rs: --show-config omitted the `hidden` attribute, so the reported style did not reproduce the rendering"),
 ('C01',"is not a file header when diff -u output starts with","delta.rs: in plain diff output that starts with a `diff -u a b` / `Only in` line, a removed line `--- x` followed by `+++ y` inside a hunk was rendered as a new file header and the rest of the hunk was lost (also C14)"),
 ('C04','an over-long line with invalid UTF-8 is truncated like any other line','delta.rs: a line with invalid UTF-8 longer than max-line-length was cut without the truncation symbol (and without the exemptions for hunk headers / rg --json records)'),
 ('C08','a long hunk header colored by git is exempt','delta.rs: a hunk header longer than max-line-length was truncated when git had coloured it (`ESC[36m@@ ...`) but not when uncoloured: the exemption tested the raw line for a leading `@@`'),
 ('C04','(never truncate) is honoured in side-by-side mode too','wrapping.rs: with side-by-side and wrapping, `--max-line-length 0` (documented: never truncate) was replaced by a computed finite limit (max(0, computed)), so long pass-through and hunk lines were cut although the user asked for no truncation'),
 ('C08','only treated as a line ending when nothing but escape sequences follows','delta.rs: a carriage return inside a line followed only by zero-width text (combining characters) was removed from uncoloured input (the rest had display width 0) but kept when git had coloured the same line, so coloured and plain input rendered differently (also C04: a byte of passed-through text dropped)'),
 ('C14',"in output of standalone diff is not dropped when it follows another file","diff_header_misc.rs: in `diff -r` output a `Binary files a/y and b/y differ` line that follows another file's section was swallowed (the previous file's names got the `(binary file)` annotation, no header was written): the binary file was not reported at all"),
 ('C10','the names shown for a merge conflict are those of that conflict','merge_conflict.rs: the ancestor/theirs commit names of an earlier (diff3-style) merge conflict were kept, so a later conflict without ancestor section - also in another file - was labelled `ancestor ⟶ HEAD`: a file section rendered differently depending on what preceded it'),
 ('C14','a hunk that starts with a merge conflict gets its hunk header','merge_conflict.rs: when the first line of a hunk of a combined diff was `++<<<<<<<`, the hunk header was never written and the syntax highlighter not set up for the hunk (conflict lines painted with the previous hunk\'s / file\'s highlighter state; also C10, C15)'),
 ('C19','hyperlinks in diffstat lines under --relative-paths point at the file','diff_stat.rs: under --relative-paths with GIT_PREFIX the link of a diffstat line joined the repository-relative path to the user\'s directory: `sub/a.rs` seen from sub/ linked to <root>/sub/sub/a.rs'),
 ('C15','the lines of a removed file are highlighted in the language of that file','diff_header.rs: `+++ /dev/null` reset the language chosen at `--- a/file`, so the removed lines of a deleted file were painted with the default language (no highlighting under `--minus-style "syntax ..."` / side-by-side) although its name has a language'),
 ('C14','the name of a modified binary file honours --relative-paths again',"diff_header_diff.rs: under --relative-paths with GIT_PREFIX the header of a binary file modified in place showed the repository-relative name (the names from the `diff --git` line were no longer relativized after fix 3c7468b had moved that step) while all other headers were relative; also wrong link target (C19)"),
 ('C09','width and precision of {commit} in --blame-format apply to the commit','blame.rs: with --hyperlinks on a terminal the {commit} field was wrapped in an OSC 8 link before padding/cutting: a precision cut the escape sequence (link never closed, sequence cut at the line end) and the width was computed from the URL (columns misaligned; C19 transparency)'),
 ('C14','a plain diff -u section naming the same files as the section before it','diff_header.rs: the second of two consecutive plain `diff -u` sections comparing the same pair of names (concatenated patches of one file) got no file header - plain diffs have no `diff` line that resets the record of the pair already shown (was KF-C14-1; also C10)'),
 ('C14','quoted paths in rename/copy lines are unquoted',"diff_header.rs: with core.quotePath (git's default) the quotes of a non-ASCII path were kept in `rename from/to` / `copy from/to` lines: the header of a renamed or copied file showed them, and a renamed file with changes got a second file header because the name pairs of the rename lines and of the ---/+++ lines differed"),
 ('C19',"the hyperlink of a binary file's header points at the file",'diff_header.rs: the note ` (binary file)` was part of the name when the header was formatted, so the OSC 8 target (and the input of --file-regex-replacement) was `<file> (binary file)` (was KF-C19-1)'),
 ('C14','is written before a submodule entry that follows it','submodule.rs: a `Submodule <path> a..b:` entry (diff.submodule=log) following a section without hunks was written before that section\'s header, and a pending mode change was attached to the submodule line (also C10)'),
 ('C14','a quoted path that contains a space is unquoted in the ---/+++ lines too','diff_header.rs: git writes `--- "a/\\303\\274 b.txt"<TAB>`; the quotes were looked for before the tab was removed and stayed, with the a/ b/ prefixes inside them: a modified file `ü b.txt` was shown as a rename `"a/..." -> "b/..."` (real `git diff` output)'),
 ('C14','no second file header for plain diff -u input when the file style is raw','diff_header.rs: with --raw / --file-style raw, plain `diff -u` input got a decorated `a -> b` file header in addition to its raw ---/+++ lines (after the hunk header, or at the end of the input): the pair of names was never recorded as shown and the pending-header check asked for the style of a hunk line (also C10: delta(A)++delta(B) differed from delta(A++B))'),
]
out = []
for prop, pat, what in FIXES:
    h = subprocess.check_output(['git','-C','/repo','log','--format=%h','--fixed-strings','--grep',pat,'-1'],text=True).strip()
    assert h, pat
    out.append(f"fixed: property={prop} {h} {what}")
p = os.path.join(ROOT,'known_findings.json')
k = json.load(open(p)); k['fixed'] = out
json.dump(k, open(p,'w'), indent=1, ensure_ascii=False)
print(len(out), 'fixed entries')
