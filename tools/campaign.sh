#!/bin/bash
# usage: tools/campaign.sh Cnn first_seed last_seed [tier]   -- collect distinct violation signatures over many seeds
P=$1; A=$2; B=$3; T=${4:-quick}
OUT=/verif/target/campaign/$P; mkdir -p $OUT
for s in $(seq $A $B); do
  /verif/harness/target/release/vcheck run $P --tier $T --seed $s --jobs ${JOBS:-16} > $OUT/seed$s.log 2>&1
  for f in /verif/target/replays/$P/*.json; do
    [ -f "$f" ] || continue
    b=$(basename $f)
    [ -f $OUT/$b ] || cp $f $OUT/$b
  done
done
grep -h "signature:" $OUT/seed*.log | sort | uniq -c | sort -rn > $OUT/summary.txt
