#!/bin/bash
# usage: tools/seedsweep.sh "<ids>" first last   -- run quick checks over many seeds, keep failing replays
IDS=$1; A=$2; B=$3
mkdir -p sweep
for s in $(seq $A $B); do
  for id in $IDS; do
    VERIF_SEED=$s ./check $id --tier quick > sweep/$id.seed$s.log 2>&1
    rc=$?
    echo "$id seed=$s rc=$rc $(grep -c '^VIOLATION' sweep/$id.seed$s.log) $(tail -n 1 sweep/$id.seed$s.log | cut -c1-160)"
    if [ $rc -ne 0 ]; then mkdir -p sweep/replays/$id.seed$s; cp -r target/replays/$id/. sweep/replays/$id.seed$s/ 2>/dev/null; fi
  done
done
