/* LD_PRELOAD shim for C18: makes the consumer of delta's output "disappear" at a chosen write
 * call.  Only active in a process whose short name is WRITEFAIL_COMM (default "delta"), so the
 * pager / differ children that inherit LD_PRELOAD are unaffected.
 *
 *   WRITEFAIL_TARGET = "1"     : writes on fd 1
 *                    = "pipe"  : writes on any fd > 2 that is a FIFO (the pager's stdin)
 *   WRITEFAIL_AT     = n >= 1  : the n-th such write call and all later ones fail with EPIPE
 *                    = 0       : never fail (count only)
 *   WRITEFAIL_LOG    = path    : one line per intercepted call: "<n> <fd> <len> <ok|EPIPE>"
 */
#define _GNU_SOURCE
#include <dlfcn.h>
#include <errno.h>
#include <fcntl.h>
#include <stdio.h>
#include <stdlib.h>
#include <string.h>
#include <sys/stat.h>
#include <sys/syscall.h>
#include <sys/uio.h>
#include <unistd.h>

extern char *program_invocation_short_name;

static int inited = 0, active = 0, target_fd1 = 1, log_fd = -1;
static long fail_at = 0;
static long counter = 0;

static void init(void) {
    if (inited) return;
    inited = 1;
    const char *comm = getenv("WRITEFAIL_COMM");
    if (!comm) comm = "delta";
    if (!program_invocation_short_name || strcmp(program_invocation_short_name, comm) != 0) return;
    const char *t = getenv("WRITEFAIL_TARGET");
    if (t && strcmp(t, "pipe") == 0) target_fd1 = 0;
    const char *a = getenv("WRITEFAIL_AT");
    fail_at = a ? atol(a) : 0;
    const char *l = getenv("WRITEFAIL_LOG");
    if (l) log_fd = (int)syscall(SYS_open, l, O_WRONLY | O_CREAT | O_APPEND | O_CLOEXEC, 0644);
    active = 1;
}

static int is_target(int fd) {
    if (!active) return 0;
    if (fd == log_fd) return 0;
    if (target_fd1) return fd == 1;
    if (fd <= 2) return 0;
    struct stat st;
    if (fstat(fd, &st) != 0) return 0;
    return S_ISFIFO(st.st_mode);
}

/* returns 1 if the call must fail */
static int account(int fd, size_t len) {
    long n = __sync_add_and_fetch(&counter, 1);
    int fail = fail_at > 0 && n >= fail_at;
    if (log_fd >= 0) {
        char buf[96];
        int k = snprintf(buf, sizeof buf, "%ld %d %zu %s\n", n, fd, len, fail ? "EPIPE" : "ok");
        syscall(SYS_write, log_fd, buf, (size_t)k);
    }
    return fail;
}

ssize_t write(int fd, const void *buf, size_t count) {
    init();
    if (is_target(fd) && account(fd, count)) {
        errno = EPIPE;
        return -1;
    }
    return syscall(SYS_write, fd, buf, count);
}

ssize_t writev(int fd, const struct iovec *iov, int iovcnt) {
    init();
    if (is_target(fd)) {
        size_t total = 0;
        for (int i = 0; i < iovcnt; i++) total += iov[i].iov_len;
        if (account(fd, total)) {
            errno = EPIPE;
            return -1;
        }
    }
    return syscall(SYS_writev, fd, iov, iovcnt);
}
