//! libFuzzer target shared by all in-process properties: the input bytes are a choice tape; the
//! property named by $VFUZZ_PROP decodes it into a case and judges it with its own oracle
//! (vcheck::fuzzapi).  Violations are recorded, not turned into crashes, so a campaign continues
//! past the first finding; only a real process death (abort, stack overflow, timeout, oom) stops
//! a libFuzzer process, and the supervisor restarts it.
#![no_main]
use libfuzzer_sys::{fuzz_target, Corpus};

fuzz_target!(|data: &[u8]| -> Corpus {
    if vcheck::fuzzapi::fuzz_one(data) {
        Corpus::Keep
    } else {
        Corpus::Reject
    }
});
