//! Second, structure-aware shrinking pass (DESIGN §2.2) for cases of the shape (option set,
//! input bytes): drop options, then ddmin over input lines, then over bytes, while the same
//! failure signature persists.
use crate::gen::config::Cfg;

pub fn cfg_from_argv(argv: &[String], gitconfig: Option<String>) -> Cfg {
    let mut c = Cfg::new();
    c.gitconfig = gitconfig;
    for a in argv {
        if a == "--no-gitconfig" || a.starts_with("--config=") {
            continue;
        }
        let a = a.trim_start_matches("--");
        match a.find('=') {
            Some(i) => c.opts.push((a[..i].to_string(), Some(a[i + 1..].to_string()))),
            None => c.opts.push((a.to_string(), None)),
        }
    }
    c
}

pub fn minimize(mut cfg: Cfg, mut input: Vec<u8>, fails: &mut dyn FnMut(&Cfg, &[u8]) -> bool, budget: usize) -> (Cfg, Vec<u8>) {
    let mut left = budget;
    let mut try_it = |cfg: &Cfg, input: &[u8], left: &mut usize| -> bool {
        if *left == 0 {
            return false;
        }
        *left -= 1;
        fails(cfg, input)
    };
    // options (never drop --dark/--light: without either delta probes the terminal)
    let mut i = 0;
    while i < cfg.opts.len() {
        if cfg.opts[i].0 == "dark" || cfg.opts[i].0 == "light" {
            i += 1;
            continue;
        }
        let mut c2 = cfg.clone();
        c2.opts.remove(i);
        if try_it(&c2, &input, &mut left) {
            cfg = c2;
        } else {
            i += 1;
        }
    }
    // lines
    let mut lines: Vec<Vec<u8>> = input.split(|b| *b == b'\n').map(|l| l.to_vec()).collect();
    let mut chunk = (lines.len() / 2).max(1);
    loop {
        let mut i = 0;
        let mut changed = false;
        while i < lines.len() {
            let end = (i + chunk).min(lines.len());
            let mut cand = lines.clone();
            cand.drain(i..end);
            let b = cand.join(&b'\n');
            if try_it(&cfg, &b, &mut left) {
                lines = cand;
                changed = true;
            } else {
                i += chunk;
            }
        }
        if chunk == 1 && !changed {
            break;
        }
        if !changed {
            chunk = (chunk / 2).max(1);
        }
        if left == 0 {
            break;
        }
    }
    input = lines.join(&b'\n');
    // bytes
    let mut chunk = (input.len() / 2).max(1);
    loop {
        let mut i = 0;
        let mut changed = false;
        while i < input.len() {
            let end = (i + chunk).min(input.len());
            let mut cand = input.clone();
            cand.drain(i..end);
            if try_it(&cfg, &cand, &mut left) {
                input = cand;
                changed = true;
            } else {
                i += chunk;
            }
        }
        if chunk == 1 && !changed {
            break;
        }
        if !changed {
            chunk = (chunk / 2).max(1);
        }
        if left == 0 {
            break;
        }
    }
    (cfg, input)
}
