//! C13 — option values resolve by the documented precedence, deterministically.
use std::collections::BTreeMap;

use serde_json::json;

use crate::exec;
use crate::gen::config::Cfg;
use crate::runner::{Ctx, Failure, Prop, Sup, Tier, Verdict};
use crate::tape::{fnv, Tape};
use crate::term;

pub struct C13;

const BUILTINS: &[&str] = &["diff-highlight", "diff-so-fancy", "hyperlinks", "line-numbers", "navigate", "raw", "side-by-side"];
/// order in which feature flags given on the command line are gathered (src/options/set.rs; the
/// documented example: `--navigate --diff-so-fancy` => diff-so-fancy, navigate)
const CMD_FLAG_ORDER: &[&str] = &["raw", "diff-highlight", "diff-so-fancy", "hyperlinks", "line-numbers", "navigate", "side-by-side"];

#[derive(Clone, Copy, PartialEq, Eq, Debug)]
enum Ty {
    Str,
    Int,
    Float,
    Bool,
    Style,
}

/// observed options (all printed by --show-config)
const OPTS: &[(&str, Ty)] = &[
    ("tabs", Ty::Int),
    ("keep-plus-minus-markers", Ty::Bool),
    ("file-style", Ty::Style),
    ("commit-style", Ty::Style),
    // (values `normal <n>`: the two styles whose *default* delta rewrites under side-by-side)
    ("minus-style", Ty::Style),
    ("minus-emph-style", Ty::Style),
    ("right-arrow", Ty::Str),
    ("file-modified-label", Ty::Str),
    ("file-added-label", Ty::Str),
    ("word-diff-regex", Ty::Str),
    ("max-line-distance", Ty::Float),
    ("diff-stat-align-width", Ty::Int),
    ("width", Ty::Int),
    ("inspect-raw-lines", Ty::Str),
    ("side-by-side", Ty::Bool),
    ("hyperlinks", Ty::Bool),
    ("line-numbers", Ty::Bool),
    ("navigate", Ty::Bool),
];

fn parse_show_config(s: &str) -> BTreeMap<String, String> {
    let mut m = BTreeMap::new();
    for l in term::visible_text(s.as_bytes()).lines() {
        if let Some((k, v)) = l.split_once('=') {
            m.insert(k.trim().to_string(), v.trim().to_string());
        }
    }
    m
}

fn value_for(ty: Ty, opt: &str, src_index: usize, t: &mut Tape) -> String {
    match ty {
        Ty::Str => {
            if opt == "inspect-raw-lines" {
                if t.coin() { "true".into() } else { "false".into() }
            } else {
                format!("v{}x", src_index)
            }
        }
        Ty::Int => format!("{}", 101 + src_index),
        Ty::Float => format!("0.{}", 11 + src_index),
        Ty::Bool => {
            if t.coin() {
                "true".into()
            } else {
                "false".into()
            }
        }
        Ty::Style if opt.starts_with("minus-") => format!("normal {}", 201 + src_index),
        Ty::Style => format!("{}", 201 + src_index),
    }
}

#[derive(Clone, Debug, Default)]
struct SectionSpec {
    features: Option<Vec<String>>,
    flags: Vec<String>, // builtin features enabled by `name = true`
    opts: Vec<(String, String)>,
}

#[derive(Clone, Debug, Default)]
struct Scenario {
    main: SectionSpec,
    custom: Vec<(String, SectionSpec)>,
    env_params: Vec<(String, String)>, // main-section overrides from GIT_CONFIG_PARAMETERS
    env_params_new_quoting: bool,
    delta_features: Option<String>,
    cmd_features: Option<Vec<String>>,
    cmd_flags: Vec<String>,
    cmd_opts: Vec<(String, String)>,
    no_gitconfig: bool,
    /// booleans in the git config file are written in git's other spellings (yes/on/1/True, no/off/0/False)
    alt_bool_spellings: bool,
}

fn gen_section(t: &mut Tape, src: usize, feature_pool: &[String], allow_features_key: bool) -> SectionSpec {
    let mut s = SectionSpec::default();
    if allow_features_key && !feature_pool.is_empty() && t.chance(1, 2) {
        let n = t.range(1, 3.min(feature_pool.len()));
        let mut v = Vec::new();
        for _ in 0..n {
            let f = feature_pool[t.below(feature_pool.len())].clone();
            v.push(f);
        }
        s.features = Some(v);
    }
    if t.chance(1, 3) {
        let b = BUILTINS[t.below(BUILTINS.len())].to_string();
        s.flags.push(b);
        // (two builtin features enabled by flags in one section: their relative priority is not documented)
    }
    let n = t.weighted(&[2, 3, 3, 2, 1]);
    for _ in 0..n {
        let (o, ty) = OPTS[t.below(OPTS.len())];
        if s.opts.iter().any(|(k, _)| k == o) || s.flags.iter().any(|f| f == o) {
            continue;
        }
        s.opts.push((o.to_string(), value_for(ty, o, src, t)));
    }
    s
}

fn gen_scenario(t: &mut Tape) -> Scenario {
    let mut sc = Scenario::default();
    let ncustom = t.weighted(&[1, 3, 3, 2]);
    // a custom section may carry the name of a builtin feature (`[delta "side-by-side"]`): the
    // user's additions to that feature, including further features it enables
    let mut names: Vec<String> = Vec::new();
    for i in 0..ncustom {
        let n = if t.chance(1, 4) { BUILTINS[t.below(BUILTINS.len())].to_string() } else { format!("f{}", i + 1) };
        names.push(if names.contains(&n) { format!("f{}", i + 1) } else { n });
    }
    for (i, n) in names.iter().enumerate() {
        // a custom feature may list later customs and builtins (no cycles: not itself, nor a
        // builtin name that an earlier custom section carries)
        let mut pool: Vec<String> = names[i + 1..].to_vec();
        let later: Vec<String> = pool.clone();
        pool.extend(BUILTINS.iter().map(|s| s.to_string()).filter(|b| !names[..=i].contains(b) && !later.contains(b)));
        let mut s = gen_section(t, 10 + i, &pool, true);
        s.flags.retain(|f| f != n);
        s.opts.retain(|(k, _)| k != n);
        sc.custom.push((n.clone(), s));
    }
    let mut all: Vec<String> = names.clone();
    all.extend(BUILTINS.iter().map(|s| s.to_string()).filter(|b| !names.contains(b)));
    sc.main = gen_section(t, 1, &all, true);
    if t.chance(1, 4) {
        let n = t.range(1, 2);
        for _ in 0..n {
            let (o, ty) = OPTS[t.below(OPTS.len())];
            if sc.env_params.iter().any(|(k, _)| k == o) {
                continue;
            }
            sc.env_params.push((o.to_string(), value_for(ty, o, 2, t)));
        }
        sc.env_params_new_quoting = t.coin();
    }
    match t.weighted(&[6, 2, 2]) {
        0 => {}
        1 => {
            // like --features: a list, last-listed first
            let n = t.range(1, 3);
            sc.delta_features = Some((0..n).map(|_| all[t.below(all.len())].clone()).collect::<Vec<_>>().join(" "));
        }
        _ => sc.delta_features = Some(format!("+{}", all[t.below(all.len())])),
    }
    if t.chance(1, 2) {
        let n = t.range(1, 3);
        sc.cmd_features = Some((0..n).map(|_| all[t.below(all.len())].clone()).collect());
    }
    if t.chance(1, 3) {
        sc.cmd_flags.push(BUILTINS[t.below(BUILTINS.len())].to_string());
        if t.chance(1, 3) {
            let b = BUILTINS[t.below(BUILTINS.len())].to_string();
            if !sc.cmd_flags.contains(&b) {
                sc.cmd_flags.push(b);
            }
        }
    }
    let n = t.weighted(&[3, 3, 2, 1]);
    for _ in 0..n {
        let (o, ty) = OPTS[t.below(OPTS.len())];
        if ty == Ty::Bool || sc.cmd_opts.iter().any(|(k, _)| k == o) {
            continue; // bool options are flags on the command line (cmd_flags)
        }
        sc.cmd_opts.push((o.to_string(), value_for(ty, o, 0, t)));
    }
    sc.no_gitconfig = t.chance(1, 10);
    sc.alt_bool_spellings = t.chance(1, 3);
    sc
}

fn render_gitconfig(sc: &Scenario) -> String {
    let mut g = String::new();
    let sect = |g: &mut String, header: &str, s: &SectionSpec| {
        g.push_str(header);
        g.push('\n');
        if let Some(f) = &s.features {
            g.push_str(&format!("    features = {}\n", f.join(" ")));
        }
        // git's value grammar for booleans: true/yes/on/1 and false/no/off/0, in any case
        let spell = |k: &str, v: &str| -> String {
            // (`inspect-raw-lines` is a string-valued option whose values happen to be "true"/"false")
            if !sc.alt_bool_spellings || k == "inspect-raw-lines" {
                return v.to_string();
            }
            let h = (fnv(k.as_bytes()) ^ fnv(header.as_bytes())) as usize;
            match v {
                "true" => ["true", "yes", "on", "1", "True", "YES"][h % 6].to_string(),
                "false" => ["false", "no", "off", "0", "False", "OFF"][h % 6].to_string(),
                _ => v.to_string(),
            }
        };
        for f in &s.flags {
            g.push_str(&format!("    {} = {}\n", f, spell(f, "true")));
        }
        for (k, v) in &s.opts {
            g.push_str(&format!("    {} = {}\n", k, spell(k, v)));
        }
    };
    sect(&mut g, "[delta]", &sc.main);
    for (n, s) in &sc.custom {
        sect(&mut g, &format!("[delta \"{}\"]", n), s);
    }
    g
}

fn to_cfg(sc: &Scenario) -> Cfg {
    let mut c = Cfg::new();
    c.flag("dark");
    if let Some(f) = &sc.cmd_features {
        c.set("features", &f.join(" "));
    }
    for f in &sc.cmd_flags {
        c.flag(f);
    }
    for (k, v) in &sc.cmd_opts {
        c.set(k, v);
    }
    if sc.no_gitconfig {
        c.flag("no-gitconfig");
    }
    c.gitconfig = Some(render_gitconfig(sc));
    if !sc.env_params.is_empty() {
        let parts: Vec<String> = sc.env_params.iter().map(|(k, v)| if sc.env_params_new_quoting { format!("'delta.{}'='{}'", k, v) } else { format!("'delta.{}={}'", k, v) }).collect();
        c.env.git_config_parameters = Some(format!("'user.name=x' {}", parts.join(" ")));
    }
    c.env.features = sc.delta_features.clone();
    c.env.current_dir = Some("/work/repo".into());
    c
}

// ---- the reference resolver (documented order; see rule())

struct Builtin {
    /// option -> value this builtin feature gives it
    defs: BTreeMap<String, String>,
    /// builtin features it enables in turn
    children: Vec<String>,
}

fn gather(sc: &Scenario, builtins: &BTreeMap<String, Builtin>) -> Vec<String> {
    // highest priority first
    let mut list: Vec<String> = Vec::new();
    let custom: BTreeMap<&str, &SectionSpec> = sc.custom.iter().map(|(n, s)| (n.as_str(), s)).collect();
    fn add_builtin(b: &str, list: &mut Vec<String>, builtins: &BTreeMap<String, Builtin>) {
        if list.iter().any(|x| x == b) {
            return;
        }
        list.push(b.to_string());
        if let Some(bi) = builtins.get(b) {
            for c in &bi.children {
                add_builtin(c, list, builtins);
            }
        }
    }
    fn add_feature(f: &str, list: &mut Vec<String>, custom: &BTreeMap<&str, &SectionSpec>, builtins: &BTreeMap<String, Builtin>, gitconfig: bool) {
        if builtins.contains_key(f) {
            add_builtin(f, list, builtins);
        } else if !list.iter().any(|x| x == f) {
            list.push(f.to_string());
        } else {
            // an earlier (higher-priority) occurrence wins; its subtree was gathered there
        }
        if !gitconfig {
            return;
        }
        if let Some(s) = custom.get(f) {
            if let Some(children) = &s.features {
                for c in children.iter().rev() {
                    if !list.iter().any(|x| x == c) {
                        add_feature(c, list, custom, builtins, gitconfig);
                    }
                }
            }
            // builtin features enabled by `<name> = true` in this section
            let mut flags: Vec<String> = BUILTINS.iter().filter(|b| section_value(s, b).as_deref() == Some("true")).map(|b| b.to_string()).collect();
            flags.sort();
            for b in flags {
                add_builtin(&b, list, builtins);
            }
        }
    }
    let gitconfig = !sc.no_gitconfig;
    // 1. --features / DELTA_FEATURES
    let mut input: Vec<String> = Vec::new();
    let mut replaced_by_env = false;
    match &sc.delta_features {
        Some(e) if e.starts_with('+') => {
            input.extend(e[1..].split_whitespace().map(|s| s.to_string()));
            if let Some(f) = &sc.cmd_features {
                input.extend(f.iter().rev().cloned());
            }
        }
        Some(e) => {
            replaced_by_env = true;
            input.extend(e.split_whitespace().rev().map(|s| s.to_string()));
        }
        None => {
            if let Some(f) = &sc.cmd_features {
                input.extend(f.iter().rev().cloned());
            }
        }
    }
    for f in &input {
        add_feature(f, &mut list, &custom, builtins, gitconfig);
    }
    // 2. feature flags on the command line
    for b in CMD_FLAG_ORDER {
        if sc.cmd_flags.iter().any(|f| f == b) {
            add_builtin(b, &mut list, builtins);
        }
    }
    if gitconfig {
        // 3. features listed in the main section, unless --features (or DELTA_FEATURES without +) was given
        let main_features_key = main_value(sc, "features");
        if sc.cmd_features.is_none() && !replaced_by_env {
            if let Some(fs) = main_features_key {
                for f in fs.split_whitespace().rev() {
                    add_feature(f, &mut list, &custom, builtins, gitconfig);
                }
            }
        }
        // 4. feature flags in the main section
        let mut flags: Vec<String> = BUILTINS.iter().filter(|b| main_value(sc, b).as_deref() == Some("true")).map(|s| s.to_string()).collect();
        flags.sort();
        for b in flags {
            add_builtin(&b, &mut list, builtins);
        }
    }
    list
}

/// value of a key in the main section, GIT_CONFIG_PARAMETERS first
fn main_value(sc: &Scenario, key: &str) -> Option<String> {
    if let Some((_, v)) = sc.env_params.iter().find(|(k, _)| k == key) {
        return Some(v.clone());
    }
    if key == "features" {
        return sc.main.features.as_ref().map(|f| f.join(" "));
    }
    if sc.main.flags.iter().any(|f| f == key) {
        return Some("true".to_string());
    }
    sc.main.opts.iter().find(|(k, _)| k == key).map(|(_, v)| v.clone())
}

fn section_value(s: &SectionSpec, key: &str) -> Option<String> {
    if s.flags.iter().any(|f| f == key) {
        return Some("true".to_string());
    }
    s.opts.iter().find(|(k, _)| k == key).map(|(_, v)| v.clone())
}

/// (value, source description)
fn resolve(sc: &Scenario, opt: &str, list: &[String], builtins: &BTreeMap<String, Builtin>, defaults: &BTreeMap<String, String>) -> (String, String) {
    if let Some((_, v)) = sc.cmd_opts.iter().find(|(k, _)| k == opt) {
        return (v.clone(), "command line".to_string());
    }
    if sc.cmd_flags.iter().any(|f| f == opt) {
        return ("true".to_string(), "command-line flag".to_string());
    }
    if !sc.no_gitconfig {
        if let Some(v) = main_value(sc, opt) {
            return (v, "main [delta] section (incl. GIT_CONFIG_PARAMETERS)".to_string());
        }
    }
    for f in list {
        if !sc.no_gitconfig {
            if let Some((_, s)) = sc.custom.iter().find(|(n, _)| n == f) {
                if let Some(v) = section_value(s, opt) {
                    return (v, format!("custom feature [delta \"{}\"]", f));
                }
            }
        }
        if let Some(b) = builtins.get(f) {
            if let Some(v) = b.defs.get(opt) {
                return (v.clone(), format!("builtin feature {}", f));
            }
        }
    }
    (defaults.get(opt).cloned().unwrap_or_default(), "default".to_string())
}

fn normalise(opt: &str, v: &str) -> String {
    // how --show-config prints values of the marker kinds used here
    let v = v.trim();
    match opt {
        "max-line-distance" => v.parse::<f64>().map(|f| format!("{}", f)).unwrap_or_else(|_| v.to_string()),
        _ => v.to_string(),
    }
}

thread_local! {
    static TABLES: std::cell::RefCell<Option<(BTreeMap<String, Builtin>, BTreeMap<String, String>)>> = const { std::cell::RefCell::new(None) };
}

/// What each builtin feature defines (itself or through the builtin features it enables), learnt
/// from delta in the simplest setting: a custom feature `zz` sets every observed option to a
/// marker, `--features "zz <b>"` puts the builtin feature above it; whatever is then not the
/// marker is defined by <b>.
fn tables(ctx: &Ctx) -> Result<(BTreeMap<String, Builtin>, BTreeMap<String, String>), Failure> {
    let mut base = Cfg::new();
    base.flag("dark");
    base.env.current_dir = Some("/work/repo".into());
    let s = exec::session(&base, ctx)?;
    let defaults = parse_show_config(&s.show_config());
    let mut zz = String::from("[delta \"zz\"]\n");
    let mut markers: BTreeMap<String, String> = BTreeMap::new();
    for (o, ty) in OPTS {
        let v = match ty {
            Ty::Str => {
                if *o == "inspect-raw-lines" {
                    "false".to_string()
                } else {
                    "zzmarker".to_string()
                }
            }
            Ty::Int => "177".to_string(),
            Ty::Float => "0.77".to_string(),
            Ty::Bool => "false".to_string(),
            Ty::Style if o.starts_with("minus-") => "normal 177".to_string(),
            Ty::Style => "177".to_string(),
        };
        zz.push_str(&format!("    {} = {}\n", o, v));
        markers.insert(o.to_string(), v);
    }
    let mut m = BTreeMap::new();
    for b in BUILTINS {
        let mut c = base.clone();
        c.gitconfig = Some(zz.clone());
        c.set("features", &format!("zz {}", b));
        let s = exec::session(&c, ctx)?;
        let vals = parse_show_config(&s.show_config());
        let mut defs = BTreeMap::new();
        for (o, _) in OPTS {
            if let Some(v) = vals.get(*o) {
                if Some(v) != markers.get(*o) {
                    defs.insert(o.to_string(), v.clone());
                }
            }
        }
        // builtin features that <b> enables in turn (side-by-side => line-numbers): a custom
        // section named like such a child then becomes a source too.  Learnt the same way: the
        // child's section sets a probe value; it shows iff enabling <b> enables the child.
        let mut children = Vec::new();
        for c2 in BUILTINS {
            if c2 == b {
                continue;
            }
            let mut c = base.clone();
            c.gitconfig = Some(format!("[delta \"{}\"]\n    right-arrow = childprobe\n", c2));
            c.set("features", b);
            let s = exec::session(&c, ctx)?;
            if parse_show_config(&s.show_config()).get("right-arrow").map(|v| v.contains("childprobe")).unwrap_or(false) {
                children.push(c2.to_string());
            }
        }
        m.insert(b.to_string(), Builtin { defs, children });
    }
    Ok((m, defaults))
}

impl Prop for C13 {
    fn id(&self) -> &'static str {
        "C13"
    }
    fn cases(&self, tier: Tier) -> usize {
        match tier {
            Tier::Quick => 6_000,
            Tier::Thorough => 100_000,
        }
    }
    fn tape_len(&self, _t: Tier) -> usize {
        600
    }
    fn rule(&self) -> String {
        "cases = placement of marker values for 18 observable options of every value type (string, bool, integer, float, style) over the sources: command line, main [delta] section, GIT_CONFIG_PARAMETERS (old and new quoting), up to three custom [delta \"f\"] sections (a quarter of them named like a builtin feature, i.e. the user's additions to it), the seven builtin features (what each defines is learnt from delta in the simplest setting `--features <b>`), defaults - under a generated feature graph: `features =` lists in main/custom sections (nested, repeated, acyclic), boolean feature flags in sections, --features, DELTA_FEATURES without '+' (a list of 1-3 features, as --features) and with '+' (one feature), feature flags on the command line; --no-gitconfig. Oracle: a reference resolver written from the documented order (command line > main section incl. env override > enabled features last-listed first, custom section before builtin value, --features/DELTA_FEATURES before flags > default; nested features: parent before its descendants) predicts every observed option's value as printed by --show-config; three constructions of the same configuration must print the same; with --no-gitconfig the result equals that of an empty gitconfig. Non-trivial = >=2 sources set some observed option and >=1 feature edge is nested; distinct by hash of the scenario.".to_string()
    }
    fn assumptions(&self) -> Vec<String> {
        vec![
            "reference resolver follows `delta --help` (FEATURES), the --features/DELTA_FEATURES help and, for nested features and the order of command-line feature flags, the ordering comment above gather_features in src/options/set.rs".to_string(),
            "two builtin features enabled by flags within one section: priority is undocumented; at most one flag per section is generated".to_string(),
            "observed through --show-config; options it does not print are not covered".to_string(),
        ]
    }
    fn needs_binary(&self) -> bool {
        true
    }
    fn check(&self, t: &mut Tape, ctx: &mut Ctx) -> Verdict {
        let tabs = TABLES.with(|c| c.borrow().as_ref().map(|(a, b)| (a.iter().map(|(k, v)| (k.clone(), Builtin { defs: v.defs.clone(), children: v.children.clone() })).collect::<BTreeMap<_, _>>(), b.clone())));
        let (builtins, defaults) = match tabs {
            Some(x) => x,
            None => match tables(ctx) {
                Ok((a, b)) => {
                    let copy = (a.iter().map(|(k, v)| (k.clone(), Builtin { defs: v.defs.clone(), children: v.children.clone() })).collect::<BTreeMap<_, _>>(), b.clone());
                    TABLES.with(|c| *c.borrow_mut() = Some(copy));
                    (a, b)
                }
                Err(f) => return Verdict::Fail(f),
            },
        };
        let sc = gen_scenario(t);
        let cfg = to_cfg(&sc);
        let detail = || json!({"argv": cfg.args(Some("<gitconfig>")), "gitconfig": cfg.gitconfig, "GIT_CONFIG_PARAMETERS": cfg.env.git_config_parameters, "DELTA_FEATURES": cfg.env.features});
        let sess = match exec::session(&cfg, ctx) {
            Ok(s) => s,
            Err(f) => return Verdict::Fail(f.with(detail())),
        };
        let shown_raw = sess.show_config();
        let shown = parse_show_config(&shown_raw);
        // determinism
        for _ in 0..2 {
            match exec::session(&cfg, ctx) {
                Ok(s2) => {
                    let again = s2.show_config();
                    if again != shown_raw {
                        let l = shown_raw.lines().zip(again.lines()).find(|(a, b)| a != b).map(|(a, b)| format!("`{}` vs `{}`", term::visible_text(a.as_bytes()).trim(), term::visible_text(b.as_bytes()).trim())).unwrap_or_default();
                        return Verdict::Fail(Failure::new("C13:nondeterministic", format!("the same sources resolved differently in two runs: {}", l)).with(detail()));
                    }
                }
                Err(f) => return Verdict::Fail(f.with(detail())),
            }
        }
        let list = gather(&sc, &builtins);
        let mut multi = false;
        for (o, _) in OPTS {
            // side-by-side alters the reported max-line-length etc.; the observed options are unaffected
            let (want, source) = resolve(&sc, o, &list, &builtins, &defaults);
            let want = normalise(o, &want);
            let got = shown.get(*o).cloned().unwrap_or_default();
            if o.starts_with("minus-") && (source == "default" || source.starts_with("builtin feature")) {
                // (the default of these two depends on side-by-side by design, and the builtin features
                // define them by reference to other styles: neither is a question of precedence)
                continue;
            }
            // how many sources set it?
            let mut n = 0;
            if sc.cmd_opts.iter().any(|(k, _)| k == o) {
                n += 1;
            }
            if main_value(&sc, o).is_some() {
                n += 1;
            }
            n += sc.custom.iter().filter(|(f, s)| list.contains(f) && section_value(s, o).is_some()).count();
            n += list.iter().filter(|f| builtins.get(*f).map(|b| b.defs.contains_key(*o)).unwrap_or(false)).count();
            if n >= 2 {
                multi = true;
            }
            if got != want {
                return Verdict::Fail(
                    Failure::new(
                        "C13:precedence",
                        format!("option `{}`: --show-config reports `{}`; by the documented order the value comes from {} and is `{}` (enabled features, highest priority first: {:?})", o, got, source, want, list),
                    )
                    .with(detail()),
                );
            }
        }
        // --no-gitconfig: same as an empty configuration
        if sc.no_gitconfig {
            let mut c2 = cfg.clone();
            c2.gitconfig = Some(String::new());
            c2.env.git_config_parameters = None;
            c2.unset("no-gitconfig");
            match exec::session(&c2, ctx) {
                Ok(s2) => {
                    if s2.show_config() != shown_raw {
                        return Verdict::Fail(Failure::new("C13:no-gitconfig", "--no-gitconfig does not give the result of an empty git configuration".to_string()).with(detail()));
                    }
                }
                Err(f) => return Verdict::Fail(f.with(detail())),
            }
            ctx.class("no-gitconfig");
        }
        let nested = sc.custom.iter().any(|(f, s)| list.contains(f) && s.features.is_some());
        ctx.class_if(sc.delta_features.is_some(), "DELTA_FEATURES");
        ctx.class_if(!sc.env_params.is_empty(), "GIT_CONFIG_PARAMETERS");
        ctx.class_if(nested, "nested-features");
        ctx.class_if(sc.custom.iter().any(|(n, s)| BUILTINS.contains(&n.as_str()) && (s.features.is_some() || !s.flags.is_empty())), "custom-section-named-like-a-builtin-enables-features");
        if multi && nested {
            ctx.nontrivial(fnv(format!("{:?}", sc).as_bytes()));
            if ctx.want_sample() {
                ctx.sample(json!({"argv": cfg.base_args(), "gitconfig": cfg.gitconfig, "GIT_CONFIG_PARAMETERS": cfg.env.git_config_parameters, "DELTA_FEATURES": cfg.env.features, "feature_priority": list}));
            }
        }
        Verdict::Pass
    }
    fn supervisor_phase(&self, _sup: &mut Sup) {}
}
