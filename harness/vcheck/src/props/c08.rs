//! C08 — git's default colouring is ignored; moved-line and raw colours are preserved.
use serde_json::json;

use crate::exec;
use crate::gen::color;
use crate::gen::config::{gen_structural, gen_tagged_styles, Cfg, CfgOpts, Tag};
use crate::gen::diff::{gen_case, lines_to_bytes, GenOpts, InLine, Item, Role, LK, SK};
use crate::refstyle;
use crate::runner::{Ctx, Failure, Prop, Sup, Tier, Verdict};
use crate::tape::{fnv, fnv_add, Tape};
use crate::term::{self, Color, Sgr};

pub struct C08;

fn gen_cfg(t: &mut Tape) -> Cfg {
    let mut c = Cfg::new();
    let o = CfgOpts {
        side_by_side: None,
        allow_presets: true,
        allow_hyperlinks: true,
        allow_navigate: true,
        allow_omit: true,
        allow_raw_headers: false,
        allow_color_only: false,
        min_width: 20,
        max_width: 200,
        wide_only: false,
    };
    gen_structural(t, &mut c, &o);
    if t.coin() {
        gen_tagged_styles(t, &mut c, &o);
    } else {
        // the default commit-style is `raw`: a raw-styled element keeps its input colours (part 3)
        if t.coin() {
            c.set("commit-style", t.ps(&["yellow", "bold yellow", "omit", "blue ul"]));
        }
    }
    c
}

/// moved-line renditions: any SGR rendition (8/16/256/24-bit colours, every attribute, combined lists)
fn gen_rendition(t: &mut Tape) -> (String, Sgr) {
    let mut params: Vec<String> = Vec::new();
    let mut st = Sgr::default();
    let nattr = t.weighted(&[3, 4, 2, 1]);
    for _ in 0..nattr {
        let (code, bit) = *t.pick(&[(1u32, term::BOLD), (2, term::DIM), (3, term::ITALIC), (4, term::UNDERLINE), (5, term::BLINK), (7, term::REVERSE), (8, term::HIDDEN), (9, term::STRIKE)]);
        if st.attrs & bit == 0 {
            st.attrs |= bit;
            params.push(code.to_string());
        }
    }
    let mut color = |t: &mut Tape, base: u32| -> (Option<String>, Color) {
        match t.weighted(&[2, 3, 2, 2, 2]) {
            0 => (None, Color::Default),
            1 => {
                let n = t.below(8) as u32;
                (Some((base + n).to_string()), Color::Idx(n as u8))
            }
            2 => {
                let n = t.below(8) as u32;
                (Some((base + 60 + n).to_string()), Color::Idx(8 + n as u8))
            }
            3 => {
                let n = t.below(256) as u32;
                (Some(format!("{};5;{}", base + 8, n)), Color::Idx(n as u8))
            }
            _ => {
                let (r, g, b) = (t.below(256) as u8, t.below(256) as u8, t.below(256) as u8);
                (Some(format!("{};2;{};{};{}", base + 8, r, g, b)), Color::Rgb(r, g, b))
            }
        }
    };
    let (fp, fc) = color(t, 30);
    let (bp, bc) = color(t, 40);
    if let Some(p) = fp {
        params.push(p);
        st.fg = fc;
    }
    if let Some(p) = bp {
        params.push(p);
        st.bg = bc;
    }
    (params.join(";"), st)
}

struct Moved {
    /// index of the input line
    line: usize,
    kind: LK,
    text: String,
    st: Sgr,
    params: String,
}

impl Prop for C08 {
    fn id(&self) -> &'static str {
        "C08"
    }
    fn cases(&self, tier: Tier) -> usize {
        match tier {
            Tier::Quick => 16_000,
            Tier::Thorough => 300_000,
        }
    }
    fn tape_len(&self, _t: Tier) -> usize {
        3000
    }
    fn rule(&self) -> String {
        "cases = two-way git diff streams (all file events, commits without diffstat) x colouriser (git's default palette: per-line, per-marker, per-word whitespace-error background, bold meta, cyan frag + plain function text, yellow commit, both reset spellings) x all rendering modes (unified, side-by-side, line numbers, hyperlinks, presets, user or tagged styles). Part 1 (no raw-styled element): stdout(coloured) == stdout(plain) byte for byte. Part 2 (unified view, inspect-raw-lines on): a changed line whose first rendition is not plain red/green is shown with exactly that rendition on every character of its text (cells decoded by the terminal model), or with the style map-styles assigns. Part 3: a raw-styled commit line keeps its input bytes. Non-trivial = coloured input differs from plain in >=3 lines and contains a split-marker or whitespace-error sequence, or >=1 moved line; distinct by hash of (input, argv).".to_string()
    }
    fn assumptions(&self) -> Vec<String> {
        vec![
            "colouriser reproduces git's sequences (git does not colour context lines; diffstat lines are pass-through text and are not generated here)".to_string(),
            "moved lines use one rendition per line with full resets, as git emits them; cancel codes inside a line are not generated (delta documents set-only parsing)".to_string(),
            "terminal model; reference style parser for map-styles targets".to_string(),
        ]
    }
    fn needs_binary(&self) -> bool {
        true
    }
    fn check(&self, t: &mut Tape, ctx: &mut Ctx) -> Verdict {
        let mut cfg = gen_cfg(t);
        let mut o = GenOpts::default_full();
        o.two_way_only = false;
        o.allow_combined = false;
        o.allow_plain = false;
        o.max_lines = 8;
        let mut case = gen_case(t, &o);
        for it in case.items.iter_mut() {
            if let Item::Commit(c) = it {
                c.diffstat.clear();
            }
        }
        case.items.retain(|it| !matches!(it, Item::Section(s) if s.kind == SK::Combined));
        if case.sections().is_empty() {
            return Verdict::Skip("no-section");
        }
        let plain_lines = case.render();
        let mode = t.weighted(&[5, 4]);
        // part 1 compares two runs and does not read the fragment back: hunk headers longer than
        // the maximum line length (which delta exempts from truncation) stay in scope there
        let long_hh = mode == 0;
        crate::gen::config::keep_headers_intact_except(&mut cfg, &plain_lines, long_hh);
        if long_hh {
            if let Some(m) = cfg.get("max-line-length").and_then(|v| v.parse::<usize>().ok()) {
                ctx.class_if(m > 0 && plain_lines.iter().any(|l| matches!(l.role, Role::HunkHeader { .. }) && l.text.len() > m), "hunk-header-longer-than-max-line-length");
            }
        }
        let plain = lines_to_bytes(&plain_lines, true);
        if mode == 0 {
            // ---- part 1 (+3): git's default colouring is ignored
            // (the emulation presets style headers `raw`: raw-styled elements keep input colours by design)
            cfg.unset("features");
            cfg.unset("diff-so-fancy");
            cfg.unset("diff-highlight");
            let mut co = color::gen_opts(t);
            co.ctx_reset = false;
            // The user's git config may name other colours for removed/added lines
            // (color.diff.old/new).  Both what git then emits and git's built-in red/green (a diff
            // coloured elsewhere, `diff -u --color`) are "plain removed/added colour" to delta.
            if t.chance(1, 5) {
                let (old_name, old_code, new_name, new_code) = *t.pick(&[
                    ("red bold", "1;31", "green bold", "1;32"),
                    ("magenta", "35", "cyan", "36"),
                    ("brightred", "91", "brightgreen", "92"),
                    ("red reverse", "7;31", "green reverse", "7;32"),
                    ("1", "38;5;1", "2", "38;5;2"),
                    ("red", "31", "blue ul", "4;34"),
                ]);
                let section = format!("[color \"diff\"]\n\told = {}\n\tnew = {}\n", old_name, new_name);
                cfg.gitconfig = Some(match cfg.gitconfig.take() {
                    Some(g) => format!("{}\n{}", g, section),
                    None => section,
                });
                if t.coin() {
                    co.old = old_code;
                    co.new = new_code;
                    ctx.class("coloured-with-configured-color.diff.old/new");
                } else {
                    ctx.class("default-palette-while-color.diff.old/new-configured");
                }
            }
            // a CRLF file: every hunk line ends in CR (git writes it after the reset when it
            // colours); some lines also carry a carriage return inside
            let mut plain_lines = plain_lines;
            let mut plain = plain;
            if t.chance(1, 4) && !case.sections().iter().any(|s| s.kind == SK::SubmoduleShort) {
                co.crlf = Some(t.coin());
                for l in plain_lines.iter_mut() {
                    if let Role::Hunk { .. } = l.role {
                        // (the marker column stays, also on an otherwise empty line)
                        let keep = l.text.chars().next().map(|c| c.len_utf8()).unwrap_or(0);
                        let mut s = format!("{}{}", &l.text[..keep], l.text[keep..].trim_end_matches(|c| c == ' ' || c == '\t'));
                        if s.chars().count() > 4 && t.chance(1, 3) {
                            let at = s.char_indices().nth(1 + t.below(s.chars().count() - 2)).map(|(i, _)| i).unwrap_or(s.len());
                            s.insert(at, '\r');
                        }
                        s.push('\r');
                        l.text = s;
                    }
                }
                plain = lines_to_bytes(&plain_lines, true);
                ctx.class("crlf-file");
            }
            let col_lines = color::colorize(&plain_lines, &co);
            let coloured = lines_to_bytes(&col_lines, true);
            let raw_commit = !cfg.has("commit-style");
            ctx.class("default-colouring");
            let sess = match exec::session(&cfg, ctx) {
                Ok(s) => s,
                Err(f) => return Verdict::Fail(f.with(json!({"case": exec::case_json(&cfg, &coloured)}))),
            };
            let out_p = match exec::run(&sess, &plain) {
                Ok(o) => o,
                Err(f) => return Verdict::Fail(f.traits(crate::props::c03::failure_traits(&cfg, &plain)).with(json!({"case": exec::case_json(&cfg, &plain)}))),
            };
            let out_c = match exec::run(&sess, &coloured) {
                Ok(o) => o,
                Err(f) => return Verdict::Fail(f.traits(crate::props::c03::failure_traits(&cfg, &coloured)).with(json!({"case": exec::case_json(&cfg, &coloured)}))),
            };
            let lp: Vec<&[u8]> = out_p.split(|b| *b == b'\n').collect();
            let lc: Vec<&[u8]> = out_c.split(|b| *b == b'\n').collect();
            if lp.len() != lc.len() {
                return Verdict::Fail(Failure::new("C08:line-count-differs", format!("coloured input gives {} output lines, the same diff uncoloured {}", lc.len(), lp.len())).with(json!({"case": exec::case_json(&cfg, &coloured)})));
            }
            // input commit lines (raw-styled by default): part 3
            let commit_inputs: Vec<&InLine> = col_lines.iter().filter(|l| l.role == Role::CommitLine).collect();
            let mut ci = 0;
            for (i, (a, b)) in lp.iter().zip(lc.iter()).enumerate() {
                if a == b {
                    continue;
                }
                // the only lines allowed to differ are raw-styled commit lines, which must keep their input bytes
                let is_commit_line = raw_commit && term::visible_text(b).trim_end().starts_with("commit ");
                if is_commit_line {
                    while ci < commit_inputs.len() && commit_inputs[ci].text.as_bytes() != *b {
                        ci += 1;
                    }
                    if ci < commit_inputs.len() {
                        continue;
                    }
                    return Verdict::Fail(Failure::new("C08:raw-commit-line-altered", format!("raw-styled commit line was not passed through with its input bytes: `{}`", exec::printable(b))).with(json!({"case": exec::case_json(&cfg, &coloured)})));
                }
                return Verdict::Fail(
                    Failure::new("C08:colouring-not-ignored", format!("output line {} differs between coloured and plain input: `{}` vs `{}`", i + 1, exec::printable(&b[..b.len().min(300)]), exec::printable(&a[..a.len().min(300)])))
                        .with(json!({"case": exec::case_json(&cfg, &coloured), "plain_output": exec::printable(&out_p[..out_p.len().min(3000)])})),
                );
            }
            let ndiff = plain_lines.iter().zip(col_lines.iter()).filter(|(a, b)| a.text != b.text).count();
            if ndiff >= 3 && (co.split_marker || coloured.windows(5).any(|w| w == b"\x1b[41m")) {
                let mut h = fnv(&coloured);
                h = fnv_add(h, &cfg.fingerprint().to_le_bytes());
                ctx.nontrivial(h);
                if ctx.want_sample() {
                    ctx.sample(json!({"part": 1, "argv": cfg.base_args().iter().filter(|a| !a.contains("-style=")).collect::<Vec<_>>(), "coloured_input": exec::printable(&coloured[..coloured.len().min(1000)])}));
                }
            }
            if ctx.want_xcheck() && cfg.gitconfig.is_none() && cfg.env.current_dir.is_none() {
                ctx.xchecks.push(json!({"argv": cfg.args(None), "env": exec::env_from_spec(&cfg.env), "cwd": cfg.env.current_dir,
                    "identity": ctx.identity, "input_hex": exec::hex(&coloured), "out_hash": format!("{:016x}", fnv(&out_c))}));
            }
            Verdict::Pass
        } else {
            // ---- part 2: moved-line renditions are preserved (unified view)
            ctx.class("moved-lines");
            cfg.unset("side-by-side");
            cfg.unset("line-numbers");
            cfg.unset("features");
            cfg.unset("diff-so-fancy");
            cfg.unset("diff-highlight");
            cfg.unset("keep-plus-minus-markers");
            cfg.unset("inspect-raw-lines");
            cfg.unset("max-line-length");
            cfg.unset("tabs");
            let with_map0 = t.chance(1, 3);
            // an element whose style is `raw` keeps its input colouring: removed (or added) lines
            // under `--minus-style raw` (`--plus-style raw`) keep git's own red/green - whether
            // or not raw lines are inspected for moved-line colours (`--inspect-raw-lines`)
            let raw_kind: Option<LK> = match t.weighted(&[6, 1, 1]) {
                0 => None,
                1 => Some(LK::Minus),
                _ => Some(LK::Plus),
            };
            let inspect_off = raw_kind.is_some() && t.coin();
            if let Some(k) = raw_kind {
                cfg.set(if k == LK::Minus { "minus-style" } else { "plus-style" }, "raw");
                if inspect_off {
                    cfg.set("inspect-raw-lines", "false");
                }
                ctx.class(if inspect_off { "raw-hunk-style+inspect-raw-lines-off" } else { "raw-hunk-style" });
            }
            let with_map = with_map0 && raw_kind.is_none();
            let mut lines = plain_lines.clone();
            let mut moved: Vec<Moved> = Vec::new();
            let mut map_from: Option<(String, Sgr)> = None;
            for (i, l) in lines.iter_mut().enumerate() {
                if let Role::Hunk { kind, .. } = &l.role {
                    if *kind == LK::Ctx || l.text.contains('\t') {
                        continue;
                    }
                    if !t.chance(1, 3) {
                        if Some(*kind) == raw_kind {
                            // git's plain colouring of this line: must be kept under a raw style
                            let (code, idx) = if *kind == LK::Minus { ("31", 1u8) } else { ("32", 2u8) };
                            let (m, rest) = l.text.split_at(1);
                            let body = rest.to_string();
                            let st = Sgr { fg: Color::Idx(idx), ..Sgr::default() };
                            l.text = format!("\x1b[{}m{}{}\x1b[m", code, m, rest);
                            moved.push(Moved { line: i, kind: *kind, text: body, st, params: code.to_string() });
                        }
                        continue;
                    }
                    if inspect_off && Some(*kind) != raw_kind {
                        continue; // (moved-line colours are not looked at when inspection is off)
                    }
                    let (params, st) = gen_rendition(t);
                    // plain red / plain green is git's default: not a moved line
                    let plain_default = st.attrs == 0 && st.bg == Color::Default && (st.fg == Color::Idx(1) || st.fg == Color::Idx(2));
                    if params.is_empty() || plain_default {
                        continue;
                    }
                    let (m, rest) = l.text.split_at(1);
                    let body = rest.to_string();
                    l.text = format!("\x1b[{}m{}\x1b[m\x1b[{}m{}\x1b[m", params, m, params, rest);
                    if map_from.is_none() {
                        map_from = Some((params.clone(), st));
                    }
                    moved.push(Moved { line: i, kind: *kind, text: body, st, params });
                }
            }
            if moved.is_empty() {
                return Verdict::Skip("no-moved-line");
            }
            let mut mapped: Option<(Sgr, Sgr)> = None;
            let mut mapped_syntax = false;
            if with_map {
                // map the first rendition (if it can be written as a style string) to a plain target style
                let (_, st) = map_from.clone().unwrap();
                if let Some(key) = style_string_for(&st) {
                    let target = t.ps(&["bold 87 19", "yellow", "italic 200 52", "normal 17", "syntax 52", "syntax bold 19"]);
                    cfg.set("map-styles", &format!("{} => {}", key, target));
                    let truecolor = cfg.get("true-color") == Some("always");
                    // `syntax` as the target's foreground: the line is syntax-highlighted over the
                    // target's background - every character gets a foreground colour from the theme
                    // (a theme is named, so that there is a highlighter whatever the file is)
                    let reference = if let Some(rest) = target.strip_prefix("syntax") {
                        mapped_syntax = true;
                        cfg.set("syntax-theme", t.ps(&["Monokai Extended", "GitHub", "Dracula"]));
                        cfg.unset("max-syntax-highlighting-length"); // (beyond it a line is not highlighted)
                        format!("normal{}", rest)
                    } else {
                        target.to_string()
                    };
                    if let Some(spec) = refstyle::parse_style(&reference, truecolor) {
                        mapped = Some((st, spec.sgr()));
                    }
                }
            }
            let input = lines_to_bytes(&lines, true);
            let out = match exec::run_cfg(&cfg, ctx, &input) {
                Ok(o) => o,
                Err(f) => return Verdict::Fail(f.traits(crate::props::c03::failure_traits(&cfg, &input)).with(json!({"case": exec::case_json(&cfg, &input)}))),
            };
            let sc = term::decode(&out);
            // walk all hunk lines and the output rows in step (unified view: input order); a moved
            // line's row is the next row showing its text
            let mut from = 0usize;
            for (li, l) in plain_lines.iter().enumerate() {
                if !matches!(l.role, Role::Hunk { .. } | Role::NoNewline { .. }) {
                    continue;
                }
                let body = if matches!(l.role, Role::NoNewline { .. }) { l.text.clone() } else { crate::rows::expand_tabs(&l.text[1..], 8) };
                let want_text = body.trim_end_matches(' ').to_string();
                if want_text.is_empty() {
                    continue;
                }
                let pos = sc.rows[from..].iter().position(|r| r.text().trim_end_matches(' ') == want_text);
                let ri = match pos {
                    Some(p) => from + p,
                    None => continue, // (whether every line is shown is C01's business)
                };
                from = ri + 1;
                let m = match moved.iter().find(|m| m.line == li) {
                    Some(m) => m,
                    None => continue,
                };
                let want = match &mapped {
                    Some((k, v)) if *k == m.st => *v,
                    _ => m.st,
                };
                let n = want_text.chars().count();
                let by_map = matches!(&mapped, Some((k, _)) if *k == m.st);
                for (ci, c) in sc.rows[ri].cells.iter().take(n).enumerate() {
                    if by_map && mapped_syntax {
                        if n > 300 || c.text.trim().is_empty() {
                            continue;
                        }
                        if c.st.fg == Color::Default || (Sgr { fg: Color::Default, ..c.st }) != want {
                            return Verdict::Fail(
                                Failure::new(
                                    "C08:moved-line-mapped-to-syntax",
                                    format!("moved {:?} line `{}` (input rendition ESC[{}m) is mapped by map-styles to a `syntax` style: every character must carry a foreground from the syntax theme over {:?}; character {} `{}` is painted {:?}", m.kind, want_text, m.params, want, ci, c.text, c.st),
                                )
                                .with(json!({"case": exec::case_json(&cfg, &input), "output_printable": exec::printable(&out[..out.len().min(5000)])})),
                            );
                        }
                        continue;
                    }
                    if c.st != want {
                        return Verdict::Fail(
                            Failure::new(
                                "C08:moved-line-rendition",
                                format!("moved {:?} line `{}` carries the input rendition ESC[{}m = {:?}{}; character {} `{}` is painted {:?}", m.kind, want_text, m.params, m.st, if mapped.is_some() { format!(" (map-styles target {:?})", want) } else { String::new() }, ci, c.text, c.st),
                            )
                            .with(json!({"case": exec::case_json(&cfg, &input), "output_printable": exec::printable(&out[..out.len().min(5000)])})),
                        );
                    }
                }
            }
            let mut h = fnv(&input);
            h = fnv_add(h, &cfg.fingerprint().to_le_bytes());
            ctx.nontrivial(h);
            ctx.class_if(mapped.is_some(), "map-styles");
            ctx.class_if(mapped.is_some() && mapped_syntax, "map-styles-to-syntax");
            if ctx.want_sample() {
                ctx.sample(json!({"part": 2, "argv": cfg.base_args().iter().filter(|a| !a.contains("-style=")).collect::<Vec<_>>(), "input": exec::printable(&input[..input.len().min(1000)])}));
            }
            Verdict::Pass
        }
    }
    fn supervisor_phase(&self, sup: &mut Sup) {
        crate::xcheck::binary_crosscheck(sup, false);
    }
}

/// a git-style string naming exactly this rendition (None if it cannot be named, e.g. bright
/// colours given as 90-97 are named by palette number)
fn style_string_for(st: &Sgr) -> Option<String> {
    let mut words: Vec<String> = Vec::new();
    for (bit, name) in [(term::BOLD, "bold"), (term::DIM, "dim"), (term::ITALIC, "italic"), (term::UNDERLINE, "ul"), (term::BLINK, "blink"), (term::REVERSE, "reverse"), (term::HIDDEN, "hidden"), (term::STRIKE, "strike")] {
        if st.attrs & bit != 0 {
            words.push(name.to_string());
        }
    }
    let col = |c: Color| match c {
        Color::Default => "normal".to_string(),
        Color::Idx(n) => n.to_string(),
        Color::Rgb(r, g, b) => format!("#{:02x}{:02x}{:02x}", r, g, b),
    };
    if st.fg != Color::Default || st.bg != Color::Default {
        words.push(col(st.fg));
        if st.bg != Color::Default {
            words.push(col(st.bg));
        }
    }
    Some(words.join(" "))
}
