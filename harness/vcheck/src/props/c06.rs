//! C06 — within-line emphasis marks exactly what changed between paired lines; pairing rules.
use serde_json::json;

use crate::exec;
use crate::gen::config::{gen_tagged_cfg, Cfg, CfgOpts, Tag};
use crate::gen::text::{self, TextOpts};
use crate::rows::{self, RowKind};
use crate::runner::{Ctx, Failure, Prop, Sup, Tier, Verdict};
use crate::tape::{fnv, fnv_add, Tape};
use crate::term;

pub struct C06;

#[derive(Clone, Debug)]
struct SubHunk {
    minus: Vec<String>,
    plus: Vec<String>,
    /// Some((X, Y)): minus[0] = P X S, plus[0] = P Y S with X, Y runs of fresh tokens
    single_run: Option<(String, String)>,
}

fn render(subs: &[SubHunk]) -> Vec<u8> {
    let mut body = String::new();
    let (mut oc, mut nc) = (0, 0);
    for (i, s) in subs.iter().enumerate() {
        for m in &s.minus {
            body.push_str(&format!("-{}\n", m));
            oc += 1;
        }
        for p in &s.plus {
            body.push_str(&format!("+{}\n", p));
            nc += 1;
        }
        body.push_str(&format!(" ctx{}\n", i));
        oc += 1;
        nc += 1;
    }
    format!("diff --git a/f.txt b/f.txt\nindex 1234567..89abcde 100644\n--- a/f.txt\n+++ b/f.txt\n@@ -1,{} +1,{} @@\n{}", oc, nc, body).into_bytes()
}

#[derive(Debug, Clone)]
struct RowInfo {
    kind: RowKind,
    text: String,
    /// per character (cell): is it emphasised (emph tag or whitespace-error tag)?
    emph: Vec<bool>,
    /// per cell: painted with an emph style proper (not the whitespace-error style)
    strict_emph: Vec<bool>,
    cells: Vec<String>,
    /// None: cannot be told (a line made of whitespace errors only)
    paired: Option<bool>,
}

fn row_info(cr: &rows::CRow) -> RowInfo {
    let mut emph = Vec::new();
    let mut strict_emph = Vec::new();
    let mut cells = Vec::new();
    let mut paired = false;
    let mut all_ws_error = true;
    for c in &cr.row.cells {
        let t = Tag::from_color(c.st.bg);
        if let Some(t) = t {
            if t.is_gutter() {
                continue;
            }
        }
        let e = matches!(t, Some(Tag::MinusEmph) | Some(Tag::PlusEmph) | Some(Tag::WsError));
        if matches!(t, Some(Tag::MinusEmph) | Some(Tag::PlusEmph) | Some(Tag::MinusNonEmph) | Some(Tag::PlusNonEmph)) {
            paired = true;
        }
        emph.push(e);
        strict_emph.push(matches!(t, Some(Tag::MinusEmph) | Some(Tag::PlusEmph)));
        if t != Some(Tag::WsError) {
            all_ws_error = false;
        }
        cells.push(c.text.clone());
    }
    // an empty paired line shows only its fill
    for e in &cr.row.erases {
        if matches!(Tag::from_color(e.st.bg), Some(Tag::MinusNonEmph) | Some(Tag::PlusNonEmph) | Some(Tag::MinusEmph) | Some(Tag::PlusEmph)) {
            paired = true;
        }
    }
    let paired = if !cells.is_empty() && all_ws_error { None } else { Some(paired) };
    RowInfo { kind: cr.kind, text: cells.concat(), emph, strict_emph, cells, paired }
}

fn without_emph(r: &RowInfo) -> String {
    r.cells.iter().zip(r.emph.iter()).filter(|(_, e)| !**e).map(|(c, _)| c.as_str()).collect()
}
fn emph_text(r: &RowInfo) -> String {
    r.cells.iter().zip(r.emph.iter()).filter(|(_, e)| **e).map(|(c, _)| c.as_str()).collect()
}
/// number of maximal stretches of emphasised cells, ignoring blank cells between/around them
fn emph_stretches(r: &RowInfo) -> usize {
    let mut n = 0;
    let mut in_run = false;
    for (c, e) in r.cells.iter().zip(r.emph.iter()) {
        if *e && c.trim().is_empty() {
            continue; // emphasised blank: neutral
        }
        if *e {
            if !in_run {
                n += 1;
                in_run = true;
            }
        } else if !c.trim().is_empty() {
            in_run = false;
        }
    }
    n
}

/// text without whitespace (and without zero-width characters, which are as invisible)
fn nows(s: &str) -> String {
    s.chars().filter(|c| !c.is_whitespace() && unicode_width::UnicodeWidthChar::width(*c) != Some(0)).collect()
}

pub fn evaluate(subs: &[SubHunk], cfg: &Cfg, out: &[u8]) -> Result<(usize, usize), Failure> {
    let sc = term::decode(out);
    let crows = rows::classify_all(&sc);
    let content: Vec<RowInfo> = crows
        .iter()
        .filter(|c| matches!(c.kind, RowKind::Minus | RowKind::Plus | RowKind::Zero | RowKind::Mixed))
        .map(row_info)
        .collect();
    let fail = |sig: &str, msg: String| Failure::new(format!("C06:{}", sig), msg);
    let tabw = rows::tab_width(cfg);
    let dist = cfg.get("max-line-distance").unwrap_or("0.6");
    let mut i = 0usize;
    let (mut n_paired, mut n_shared) = (0usize, 0usize);
    for (si, s) in subs.iter().enumerate() {
        let nm = s.minus.len();
        let np = s.plus.len();
        if i + nm + np + 1 > content.len() {
            return Err(fail("row-mapping", format!("sub-hunk {}: expected {} rows, output has only {} content rows left", si, nm + np + 1, content.len() - i.min(content.len()))));
        }
        let mrows = &content[i..i + nm];
        let prows = &content[i + nm..i + nm + np];
        let zrow = &content[i + nm + np];
        i += nm + np + 1;
        for (r, want, k) in mrows.iter().zip(s.minus.iter()).map(|(r, w)| (r, w, RowKind::Minus)).chain(prows.iter().zip(s.plus.iter()).map(|(r, w)| (r, w, RowKind::Plus))) {
            let want = rows::expand_tabs(want, tabw);
            if r.kind != k || r.text.trim_end_matches(' ') != want.trim_end_matches(' ') {
                return Err(fail("row-mapping", format!("sub-hunk {}: row `{}` ({:?}) does not show the expected {:?} line `{}`", si, r.text, r.kind, k, want)));
            }
        }
        // (2) unchanged lines carry no emphasis
        if zrow.emph.iter().any(|e| *e) {
            return Err(fail("emph-on-unchanged", format!("unchanged line `{}` carries emphasis", zrow.text)));
        }
        // pairing as painted: k-th paired removed line <-> k-th paired added line
        // (an added line consisting of whitespace errors only does not show whether it is paired:
        // such sub-hunks are only held to the rules that do not need the pairing)
        if mrows.iter().chain(prows.iter()).any(|r| r.paired.is_none()) {
            continue;
        }
        let pm: Vec<(usize, &RowInfo)> = mrows.iter().enumerate().filter(|(_, r)| r.paired == Some(true)).collect();
        let pp: Vec<(usize, &RowInfo)> = prows.iter().enumerate().filter(|(_, r)| r.paired == Some(true)).collect();
        if pm.len() != pp.len() {
            return Err(fail("pairing-unbalanced", format!("sub-hunk {}: {} removed lines are painted as paired but {} added lines", si, pm.len(), pp.len())));
        }
        // (2) unpaired lines carry no emphasis (trailing blanks of an added line are whitespace errors, not emphasis)
        for r in mrows.iter().chain(prows.iter()).filter(|r| r.paired == Some(false)) {
            let e = emph_text(r);
            if !e.trim().is_empty() {
                return Err(fail("emph-on-unpaired", format!("line `{}` has no partner but carries emphasis on `{}`", r.text, e)));
            }
        }
        for ((mi, m), (pi, p)) in pm.iter().zip(pp.iter()) {
            n_paired += 1;
            // (1) what is not emphasised is common to both lines
            let (a, b) = (without_emph(m), without_emph(p));
            if a.trim_end() != b.trim_end() {
                return Err(fail(
                    "unemphasised-text-differs",
                    format!("paired lines `{}` / `{}`: deleting the emphasised parts leaves `{}` vs `{}`", m.text, p.text, a, b),
                ));
            }
            // (2) identical pairs carry no emphasis
            if m.text == p.text && (m.strict_emph.iter().any(|e| *e) || p.strict_emph.iter().any(|e| *e)) {
                return Err(fail("emph-on-identical-pair", format!("identical paired lines `{}` carry emphasis", m.text)));
            }
            if m.text != p.text {
                n_shared += 1;
            }
            // (4) distance rules
            if dist == "1" && mi != pi {
                return Err(fail("pairing-at-distance-1", format!("sub-hunk {}: with max-line-distance 1 the removed line #{} must pair with the added line #{}, it pairs with #{}", si, mi, mi, pi)));
            }
            if dist == "0" && nows(&m.text) != nows(&p.text) {
                return Err(fail("pairing-at-distance-0", format!("with max-line-distance 0 `{}` and `{}` are painted as a pair although they differ in more than whitespace", m.text, p.text)));
            }
        }
        if dist == "1" && pm.len() != nm.min(np) {
            return Err(fail("pairing-at-distance-1", format!("sub-hunk {} ({} removed, {} added): with max-line-distance 1 the first {} lines must be paired, {} are", si, nm, np, nm.min(np), pm.len())));
        }
        // (3) single contiguous run
        if let Some((x, y)) = &s.single_run {
            if let (Some(m), Some(p)) = (mrows.first(), prows.first()) {
                if m.paired == Some(true) && p.paired == Some(true) {
                    for (r, want, side) in [(m, x, "removed"), (p, y, "added")] {
                        let st = emph_stretches(r);
                        let e = emph_text(r);
                        if want.is_empty() {
                            if !e.trim().is_empty() {
                                return Err(fail("single-run", format!("{} line `{}`: nothing of it changed, yet `{}` is emphasised", side, r.text, e)));
                            }
                        } else if st != 1 || e.split_whitespace().collect::<Vec<_>>().join(" ") != want.split_whitespace().collect::<Vec<_>>().join(" ") {
                            return Err(fail(
                                "single-run",
                                format!("{} line `{}` differs from its partner by the single run `{}`; the emphasis is {} stretch(es) covering `{}`", side, r.text, want, st, e),
                            ));
                        }
                    }
                }
            }
        }
    }
    Ok((n_paired, n_shared))
}

const ALPHA: &[char] = &['a', 'b', ' ', ';'];

fn seqs(max_len: usize) -> Vec<String> {
    let mut v = vec![String::new()];
    let mut start = 0;
    for _ in 0..max_len {
        let end = v.len();
        for i in start..end {
            for c in ALPHA {
                let mut s = v[i].clone();
                s.push(*c);
                v.push(s);
            }
        }
        start = end;
    }
    v
}

fn exhaustive_cfg(dist: &str, regex: &str) -> Cfg {
    // fixed tagged configuration, unified view
    let mut t = Tape::new(vec![]);
    let mut co = CfgOpts::unified();
    co.allow_presets = false;
    let mut c = gen_tagged_cfg(&mut t, &co);
    c.set("max-line-distance", dist);
    c.set("word-diff-regex", regex);
    c.set("width", "120");
    c.set("syntax-theme", "none");
    c
}

fn gen_random(t: &mut Tape, tier: Tier) -> (Vec<SubHunk>, Cfg) {
    let mut co = CfgOpts::unified();
    co.allow_presets = false;
    co.allow_hyperlinks = false;
    let mut cfg = gen_tagged_cfg(t, &co);
    cfg.unset("features");
    cfg.unset("line-numbers");
    cfg.unset("keep-plus-minus-markers");
    cfg.unset("max-line-length");
    cfg.unset("line-buffer-size");
    if cfg.get("width") == Some("variable") {
        cfg.unset("width"); // without fill an empty line has no tagged row
    }
    cfg.set("max-line-distance", t.ps(&["0.6", "0", "1", "0.2", "0.9"]));
    cfg.set("word-diff-regex", t.ps(&[r"\w+", r"\S+", r"[a-z]+|\d+", "."]));
    // `--line-buffer-size N`: a run of up to N removed lines followed by up to N+1 added lines is still
    // painted as one sub-hunk (the buffers are flushed only when a line arrives while one of them holds
    // more than N), so every rule applies to it unchanged; runs are built at and just below that
    // boundary.  (Drawn from a fork so that the rest of the case does not move.)
    let mut lb = t.fork(48);
    let buf: Option<usize> = if lb.chance(1, 5) { Some(lb.range(1, 6)) } else { None };
    if let Some(n) = buf {
        cfg.set("line-buffer-size", &n.to_string());
        if lb.chance(2, 3) {
            cfg.set("max-line-distance", "1");
        }
    }
    // (the default limit, 32: one long run now and then)
    let long_run = buf.is_none() && lb.chance(1, 30);
    if long_run {
        cfg.set("max-line-distance", "1");
    }
    let o = TextOpts { allow_markerlike: false, allow_long: tier == Tier::Thorough, allow_trailing_ws: true, ..TextOpts::all() };
    let n = t.range(1, 5);
    let mut subs = Vec::new();
    for _ in 0..n {
        if t.chance(1, 3) {
            // P X S / P Y S with fresh tokens
            let word = |t: &mut Tape, pool: &str| format!("{}{}", pool, t.below(50));
            let np = t.range(0, 3);
            let ns = t.range(0, 3);
            let p: Vec<String> = (0..np).map(|_| word(t, "p")).collect();
            let s: Vec<String> = (0..ns).map(|_| word(t, "s")).collect();
            let nx = t.range(0, 3);
            let ny = t.range(if nx == 0 { 1 } else { 0 }, 3);
            let x: Vec<String> = (0..nx).map(|i| format!("x{}q{}", i, t.below(9))).collect();
            let y: Vec<String> = (0..ny).map(|i| format!("y{}z{}", i, t.below(9))).collect();
            let join = |a: &[String], b: &[String], c: &[String]| a.iter().chain(b.iter()).chain(c.iter()).cloned().collect::<Vec<_>>().join(" ");
            let minus = join(&p, &x, &s);
            let plus = join(&p, &y, &s);
            if minus != plus {
                // these cases assert the shape of the emphasis only when the lines get paired;
                // word tokens need a word-based regex
                if cfg.get("word-diff-regex") == Some(".") || cfg.get("word-diff-regex") == Some(r"[a-z]+|\d+") {
                    cfg.set("word-diff-regex", r"\w+");
                }
                subs.push(SubHunk { minus: vec![minus], plus: vec![plus], single_run: Some((x.join(" "), y.join(" "))) });
                continue;
            }
        }
        let m = t.weighted(&[1, 4, 3, 2, 1, 1, 1]);
        let p = t.weighted(&[1, 4, 3, 2, 1, 1, 1]);
        let (m, p) = if m + p == 0 { (1, 1) } else { (m, p) };
        let (m, p) = match buf {
            Some(n) => (if lb.coin() { n } else { m.min(n) }, if lb.chance(1, 3) { n + 1 } else { p.min(n + 1) }),
            None if long_run && subs.is_empty() => (32 - lb.below(2), lb.range(1, 33)),
            None => (m, p),
        };
        let minus: Vec<String> = (0..m).map(|_| text::content(t, &o)).collect();
        let mut plus: Vec<String> = Vec::new();
        for i in 0..p {
            let j = if t.chance(1, 5) && !minus.is_empty() { t.below(minus.len()) } else { i };
            if j < minus.len() && t.chance(3, 4) {
                plus.push(text::mutate_line(t, &minus[j], &o));
            } else {
                plus.push(text::content(t, &o));
            }
        }
        // a context-looking line must not start with a marker that changes its kind: contents are
        // arbitrary, the marker column is added by render()
        subs.push(SubHunk { minus, plus, single_run: None });
    }
    // A style may be given as the name of another style option (`--plus-emph-style
    // grep-match-word-style`): the emphasis styles are then what that option holds.  (Drawn last.)
    let mut extra = t.fork(4);
    if extra.chance(1, 6) {
        for (emph, carrier) in [("plus-emph-style", "grep-match-word-style"), ("minus-emph-style", "grep-match-line-style"), ("plus-non-emph-style", "grep-context-line-style")] {
            if extra.coin() {
                if let Some(v) = cfg.get(emph).map(|s| s.to_string()) {
                    cfg.set(carrier, &v);
                    cfg.set(emph, carrier);
                }
            }
        }
    }
    (subs, cfg)
}

impl Prop for C06 {
    fn id(&self) -> &'static str {
        "C06"
    }
    fn cases(&self, tier: Tier) -> usize {
        match tier {
            Tier::Quick => 8_000,
            Tier::Thorough => 200_000,
        }
    }
    fn tape_len(&self, _t: Tier) -> usize {
        2500
    }
    fn rule(&self) -> String {
        "(E) exhaustive: all ordered pairs of strings of length <= 4 (thorough: 5) over {a,b,blank,;} as 1x1 sub-hunks, under max-line-distance 0 / 0.6 / 1 and word-diff-regex \\w+ (each pair rendered through a fixed tagged configuration; batches of 60 sub-hunks per run). (R) random: 1-5 sub-hunks of 0-6 removed x 0-6 added realistic lines (Unicode, repeated tokens, whitespace-only differences, trailing blanks), and P.X.S / P.Y.S lines built from fresh word tokens; regex in {\\w+, \\S+, [a-z]+|\\d+, .}; distance in {0, 0.2, 0.6, 0.9, 1}. Oracle per decoded row (cell classes from tags): (1) deleting emphasised cells from both lines of a pair leaves equal text; (2) unpaired lines, unchanged lines and identical pairs carry no emphasis; (3) single-run pairs: one contiguous stretch equal to X resp. Y; (4) painted pairing is balanced; at distance 1 the i-th removed pairs with the i-th added for i <= min(m,p); at distance 0 paired lines are equal up to whitespace. Non-trivial = a pair whose lines differ (random) / every enumerated pair (exhaustive); distinct by hash of the sub-hunk and options.".to_string()
    }
    fn assumptions(&self) -> Vec<String> {
        vec![
            "a line is 'paired' iff it is painted with the emph / non-emph styles (tagged family keeps them distinct from the plain minus/plus styles)".to_string(),
            "whitespace-error cells on added lines count as emphasised; comparisons ignore trailing blanks".to_string(),
            "optimality of the alignment is not claimed, only validity and minimal size in the single-run case".to_string(),
        ]
    }
    fn needs_binary(&self) -> bool {
        true
    }
    fn exhaustive_phase(&self, shard: usize, nshards: usize, ctx: &mut Ctx) -> Vec<Failure> {
        let all = seqs(if ctx.tier == Tier::Quick { 4 } else { 5 });
        let mut fails = Vec::new();
        let mut n = 0u64;
        for (ci, (dist, regex)) in [("0.6", r"\w+"), ("1", r"\w+"), ("0", r"\w+")].iter().enumerate() {
            // quick tier: full enumeration at the default distance, every third pair at the others
            let cfg = exhaustive_cfg(dist, regex);
            let sess = match exec::session(&cfg, ctx) {
                Ok(s) => s,
                Err(f) => return vec![f],
            };
            let mut batch: Vec<SubHunk> = Vec::new();
            let mut k = 0usize;
            let total = all.len() * all.len();
            let mut flush = |batch: &mut Vec<SubHunk>, fails: &mut Vec<Failure>, ctx: &mut Ctx| {
                if batch.is_empty() {
                    return;
                }
                let input = render(batch);
                match exec::run(&sess, &input) {
                    Ok(out) => {
                        if let Err(f) = evaluate(batch, &cfg, &out) {
                            if fails.len() < 5 {
                                fails.push(f.with(json!({"case": exec::case_json(&cfg, &input), "output_printable": exec::printable(&out[..out.len().min(4000)])})));
                            }
                        }
                    }
                    Err(f) => {
                        if fails.len() < 5 {
                            fails.push(f.with(json!({"case": exec::case_json(&cfg, &input)})));
                        }
                    }
                }
                batch.clear();
                let _ = ctx;
            };
            for idx in 0..total {
                if idx % nshards != shard {
                    continue;
                }
                if ctx.tier == Tier::Quick && ci > 0 && (idx / nshards) % 3 != 0 {
                    continue;
                }
                let (a, b) = (&all[idx / all.len()], &all[idx % all.len()]);
                batch.push(SubHunk { minus: vec![a.clone()], plus: vec![b.clone()], single_run: None });
                n += 1;
                k += 1;
                ctx.nontrivial(fnv_add(fnv(format!("E|{}|{}|{}", dist, a, b).as_bytes()), &[ci as u8]));
                if k % 60 == 0 {
                    flush(&mut batch, &mut fails, ctx);
                }
            }
            flush(&mut batch, &mut fails, ctx);
        }
        ctx.notes.insert("exhaustive-evaluations".to_string(), n);
        ctx.notes.insert("exhaustive-pairs".to_string(), n);
        if ctx.samples.is_empty() {
            ctx.samples.push(json!({"exhaustive": true, "alphabet": "a b blank ;", "max_len": if ctx.tier == Tier::Quick { 4 } else { 5 }, "example_pair": ["ab ;", "a;b"]}));
        }
        fails
    }
    fn check(&self, t: &mut Tape, ctx: &mut Ctx) -> Verdict {
        let (subs, mut cfg) = gen_random(t, ctx.tier);
        let mut input = render(&subs);
        // The same diff as git colours it (default palette: removed lines red, added lines green with
        // the marker painted on its own) - which carries no information and must not change what
        // is emphasised - also when the user's git config names other colours for color.diff.old/new.
        let mut extra = t.fork(3);
        if extra.chance(1, 8) {
            let text = String::from_utf8_lossy(&input).into_owned();
            let mut col = String::new();
            // (what a line is follows from where it stands - render() writes four header lines, the
            // hunk header, then hunk lines - not from how its text begins: an added line may read `+++ x`)
            for (li, l) in text.split_inclusive('\n').enumerate() {
                let body = l.trim_end_matches('\n');
                if li >= 5 && body.starts_with('-') {
                    col.push_str(&format!("\x1b[31m{}\x1b[m", body));
                } else if li >= 5 && body.starts_with('+') {
                    col.push_str(&format!("\x1b[32m+\x1b[m\x1b[32m{}\x1b[m", &body[1..]));
                } else if li == 4 {
                    col.push_str(&format!("\x1b[36m{}\x1b[m", body));
                } else if li < 4 {
                    col.push_str(&format!("\x1b[1m{}\x1b[m", body));
                } else {
                    col.push_str(body);
                }
                if l.ends_with('\n') {
                    col.push('\n');
                }
            }
            input = col.into_bytes();
            ctx.class("input-coloured-by-git");
            if extra.coin() {
                let section = "[color \"diff\"]\n\told = red bold\n\tnew = green bold\n";
                cfg.gitconfig = Some(match cfg.gitconfig.take() {
                    Some(g) => format!("{}\n{}", g, section),
                    None => section.to_string(),
                });
                ctx.class("color.diff.old/new-configured");
            }
        }
        ctx.class(&format!("distance={}", cfg.get("max-line-distance").unwrap_or("")));
        ctx.class_if(subs.iter().any(|s| s.single_run.is_some()), "single-run-pair");
        let out = match exec::run_cfg(&cfg, ctx, &input) {
            Ok(o) => o,
            Err(mut f) => {
                f.detail = json!({"case": exec::case_json(&cfg, &input)});
                f.traits = crate::props::c03::failure_traits(&cfg, &input);
                return Verdict::Fail(f);
            }
        };
        match evaluate(&subs, &cfg, &out) {
            Ok((_paired, shared)) => {
                if shared > 0 {
                    let mut h = fnv(&input);
                    h = fnv_add(h, &cfg.fingerprint().to_le_bytes());
                    ctx.nontrivial(h);
                    if ctx.want_sample() {
                        ctx.sample(json!({"argv": cfg.base_args().iter().filter(|a| !a.contains("-style=")).collect::<Vec<_>>(), "input": exec::printable(&input[..input.len().min(1000)])}));
                    }
                }
                if ctx.want_xcheck() {
                    ctx.xchecks.push(json!({"argv": cfg.args(None), "env": exec::env_from_spec(&cfg.env), "cwd": cfg.env.current_dir,
                        "identity": ctx.identity, "input_hex": exec::hex(&input), "out_hash": format!("{:016x}", fnv(&out))}));
                }
                Verdict::Pass
            }
            Err(mut f) => {
                f.detail = json!({"case": exec::case_json(&cfg, &input), "output_printable": exec::printable(&out[..out.len().min(6000)])});
                f.traits = crate::props::c03::failure_traits(&cfg, &input);
                Verdict::Fail(f)
            }
        }
    }
    fn supervisor_phase(&self, sup: &mut Sup) {
        sup.exhaustive = Some(true);
        crate::xcheck::binary_crosscheck(sup, false);
    }
}
