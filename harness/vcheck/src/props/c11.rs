//! C11 — output is streamed: bounded lag behind the input, never revised.
//!
//! In-process: delta is driven through a reader that hands it exactly one input line per
//! request and a recording writer; the bytes written at the moment delta asks for line k+1 are
//! W(k) (no timing involved).  Real binary: the same probes over pipes, quiescence observed as
//! "main thread blocked in read(0)" in /proc/<pid>/syscall.
use std::cell::RefCell;
use std::collections::BTreeSet;
use std::io::{BufRead, Read, Write};
use std::rc::Rc;
use std::time::{Duration, Instant};

use serde_json::{json, Value};

use crate::exec;
use crate::gen::config::{gen_tagged_cfg, Cfg, CfgOpts};
use crate::gen::text::{self, TextOpts};
use crate::runner::{guarded, Ctx, Failure, Prop, Sup, Tier, Verdict};
use crate::tape::{fnv, fnv_add, Tape};
use crate::term;

pub struct C11;

#[derive(Clone, Copy, Debug, PartialEq, Eq)]
pub enum K {
    Header,
    /// first line of a section that shows the path token (sec)
    HunkHeader,
    Ctx,
    Minus,
    Plus,
    NoNewline,
}

#[derive(Clone, Debug)]
pub struct L {
    pub text: String,
    pub kind: K,
    pub sec: usize,
    /// sentinel number for hunk lines
    pub id: Option<usize>,
}

pub struct Case {
    pub lines: Vec<L>,
    pub n_sections: usize,
}

fn run_len(t: &mut Tape, n: usize, allow_big: bool) -> usize {
    let n = n.min(64); // ("unlimited" buffer sizes: runs are sized as for 64)
    let big = if allow_big { 1 } else { 0 };
    match t.weighted(&[4, 10, 4, big]) {
        0 => 0,
        1 => *t.pick(&[1usize, 1, n.saturating_sub(1), n, n + 1, n + 2, 2 * n + 1, 2 * n + 3]),
        2 => t.range(1, 8),
        _ => t.range(40, 300),
    }
}

pub fn gen_case(t: &mut Tape, n: usize) -> Case {
    gen_case_sized(t, n, 3, 3, 40)
}

pub fn gen_case_sized(t: &mut Tape, n: usize, max_sec: usize, max_hunks: usize, max_budget: usize) -> Case {
    let o = TextOpts { allow_markerlike: false, allow_long: false, allow_trailing_ws: false, ..TextOpts::all() };
    let mut lines: Vec<L> = Vec::new();
    let nsec = t.range(1, max_sec);
    let mut next_id = 0usize;
    let mut big_left = 1usize;
    for sec in 0..nsec {
        let combined = t.chance(1, 7);
        let path = format!("src/P{}F.{}", sec, t.pick(text::EXTS));
        let h = |s: String| L { text: s, kind: K::Header, sec, id: None };
        if combined {
            lines.push(h(format!("diff --cc {}", path)));
            lines.push(h("index 1111111,2222222..3333333".to_string()));
        } else {
            lines.push(h(format!("diff --git a/{} b/{}", path, path)));
            lines.push(h("index 1111111..2222222 100644".to_string()));
        }
        lines.push(h(format!("--- a/{}", path)));
        lines.push(h(format!("+++ b/{}", path)));
        let nh = t.range(1, max_hunks);
        let (mut old, mut new) = (t.range(1, 500), 0usize);
        new += old + t.below(5);
        for _ in 0..nh {
            let mut body: Vec<(K, String)> = Vec::new();
            let budget = t.range(2, max_budget);
            let mut first = true;
            while body.len() < budget {
                // (no unchanged line between two sub-hunks: a removed line directly after an added one, as
                // combined diffs, other diff tools and hand-made patches have it)
                let nctx = if first { t.below(3) } else { t.range(0, 3) };
                first = false;
                for _ in 0..nctx {
                    body.push((K::Ctx, String::new()));
                }
                let big = big_left > 0 && t.chance(1, 12);
                if big {
                    big_left -= 1;
                }
                let (a, b) = (run_len(t, n, big), run_len(t, n, big));
                let (a, b) = if a == 0 && b == 0 { (1, 0) } else { (a, b) };
                for _ in 0..a {
                    body.push((K::Minus, String::new()));
                }
                for _ in 0..b {
                    body.push((K::Plus, String::new()));
                }
                if t.chance(1, 25) {
                    body.push((K::NoNewline, String::new()));
                }
            }
            if t.coin() {
                body.push((K::Ctx, String::new()));
            }
            let oc = body.iter().filter(|(k, _)| matches!(k, K::Ctx | K::Minus)).count();
            let nc = body.iter().filter(|(k, _)| matches!(k, K::Ctx | K::Plus)).count();
            let frag = if t.coin() { format!(" fn {}()", text::ident(t)) } else { String::new() };
            let hh = if combined { format!("@@@ -{},{} -{},{} +{},{} @@@{}", old, oc, old, oc, new, nc, frag) } else { format!("@@ -{},{} +{},{} @@{}", old, oc, new, nc, frag) };
            lines.push(L { text: hh, kind: K::HunkHeader, sec, id: None });
            for (k, _) in body {
                if k == K::NoNewline {
                    lines.push(L { text: "\\ No newline at end of file".to_string(), kind: k, sec, id: None });
                    continue;
                }
                let prefix = match (k, combined) {
                    (K::Ctx, false) => " ".to_string(),
                    (K::Minus, false) => "-".to_string(),
                    (K::Plus, false) => "+".to_string(),
                    (K::Ctx, true) => "  ".to_string(),
                    (K::Minus, true) => t.ps(&["- ", " -", "--"]).to_string(),
                    (_, true) => t.ps(&["+ ", " +", "++"]).to_string(),
                    _ => unreachable!(),
                };
                let code = text::content(t, &o);
                let id = next_id;
                next_id += 1;
                lines.push(L { text: format!("{}Q{}Z {}", prefix, id, code.trim_start()), kind: k, sec, id: Some(id) });
            }
            old += oc + t.range(1, 30);
            new += nc + t.range(1, 30);
        }
    }
    Case { lines, n_sections: nsec }
}

struct Shared {
    out: Vec<u8>,
    snaps: Vec<usize>,
    /// largest number of bytes written between two consecutive requests for input
    max_burst: usize,
}

struct LineReader {
    lines: Vec<Vec<u8>>,
    next: usize,
    cur: Vec<u8>,
    pos: usize,
    sh: Rc<RefCell<Shared>>,
}

impl Read for LineReader {
    fn read(&mut self, buf: &mut [u8]) -> std::io::Result<usize> {
        let avail = self.fill_buf()?;
        let n = avail.len().min(buf.len());
        buf[..n].copy_from_slice(&avail[..n]);
        self.consume(n);
        Ok(n)
    }
}

impl BufRead for LineReader {
    fn fill_buf(&mut self) -> std::io::Result<&[u8]> {
        if self.pos >= self.cur.len() {
            // delta asks for more input: everything it will ever write for the lines handed
            // over so far (short of seeing more input) has been written
            let mut sh = self.sh.borrow_mut();
            let len = sh.out.len();
            let last = sh.snaps.last().copied().unwrap_or(0);
            sh.max_burst = sh.max_burst.max(len - last);
            if sh.snaps.len() <= self.lines.len() {
                sh.snaps.push(len);
            }
            if self.next < self.lines.len() {
                self.cur = std::mem::take(&mut self.lines[self.next]);
                self.next += 1;
                self.pos = 0;
            } else {
                self.cur.clear();
                self.pos = 0;
            }
        }
        Ok(&self.cur[self.pos..])
    }
    fn consume(&mut self, amt: usize) {
        self.pos = (self.pos + amt).min(self.cur.len());
    }
}

struct Recorder(Rc<RefCell<Shared>>);
impl Write for Recorder {
    fn write(&mut self, buf: &[u8]) -> std::io::Result<usize> {
        self.0.borrow_mut().out.extend_from_slice(buf);
        Ok(buf.len())
    }
    fn flush(&mut self) -> std::io::Result<()> {
        Ok(())
    }
}

pub fn tokens_in(visible: &str, into: &mut BTreeSet<usize>, paths: &mut BTreeSet<usize>) {
    let b = visible.as_bytes();
    let mut i = 0;
    while i < b.len() {
        if b[i] == b'Q' || b[i] == b'P' {
            let mut j = i + 1;
            while j < b.len() && b[j].is_ascii_digit() {
                j += 1;
            }
            if j > i + 1 && j < b.len() {
                if let Ok(n) = visible[i + 1..j].parse::<usize>() {
                    if b[i] == b'Q' && b[j] == b'Z' {
                        into.insert(n);
                    } else if b[i] == b'P' && b[j] == b'F' {
                        paths.insert(n);
                    }
                }
            }
            i = j.max(i + 1);
        } else {
            i += 1;
        }
    }
}

/// The lag rule at prefix k (k lines handed over), given the sentinels visible in W(k).
/// Returns (signature suffix, message, traits) of the first violation.
fn lag_violation(case_lines: &[(K, usize, Option<usize>)], k: usize, n: usize, present: &BTreeSet<usize>, paths_present: &BTreeSet<usize>, final_paths: &BTreeSet<usize>) -> Option<(String, String, Vec<String>)> {
    if k == 0 {
        return None;
    }
    let (kind, sec, _) = case_lines[k - 1];
    if !matches!(kind, K::Ctx | K::Minus | K::Plus | K::NoNewline) {
        return None; // the prefix does not end inside a hunk
    }
    // the currently open run of consecutive removed/added lines
    let mut run_start = k;
    while run_start > 0 && matches!(case_lines[run_start - 1].0, K::Minus | K::Plus) {
        run_start -= 1;
    }
    let mut absent_in_run = 0usize;
    let (mut minus_absent, mut plus_absent) = (0usize, 0usize);
    for (i, (kk, _, id)) in case_lines[..k].iter().enumerate() {
        if let Some(id) = id {
            if !present.contains(id) {
                if i < run_start {
                    return Some((
                        "line-before-open-run-not-written".to_string(),
                        format!("after {} input lines (N={}), hunk line {} (sentinel Q{}Z, {:?}) has not been written although it precedes the currently open run of removed/added lines (which starts at line {})", k, n, i + 1, id, kk, run_start + 1),
                        vec![],
                    ));
                }
                absent_in_run += 1;
                if *kk == K::Minus {
                    minus_absent += 1;
                } else {
                    plus_absent += 1;
                }
            }
        }
    }
    if final_paths.contains(&sec) && !paths_present.contains(&sec) {
        return Some(("file-header-not-written".to_string(), format!("after {} input lines the input is inside a hunk of section {} but that section's file header has not been written", k, sec), vec![]));
    }
    if absent_in_run > n.saturating_add(1) {
        let mut traits = Vec::new();
        if minus_absent > 0 && plus_absent > 0 {
            traits.push("both-sides-pending".to_string());
        }
        if absent_in_run <= n.saturating_mul(2).saturating_add(1) && minus_absent <= n && plus_absent <= n.saturating_add(1) {
            traits.push("within-n-removed-plus-n-plus-1-added".to_string());
        }
        return Some((
            "lag-exceeds-n-plus-1".to_string(),
            format!("after {} input lines, {} lines of the open run are held back ({} removed, {} added); line-buffer-size is {} so at most {} may be", k, absent_in_run, minus_absent, plus_absent, n, n.saturating_add(1)),
            traits,
        ));
    }
    None
}

fn tail_of(w: &[u8]) -> String {
    let v = term::visible_text(w);
    let ls: Vec<&str> = v.lines().collect();
    ls[ls.len().saturating_sub(12)..].join("\n")
}

fn meta_of(c: &Case) -> Vec<(K, usize, Option<usize>)> {
    c.lines.iter().map(|l| (l.kind, l.sec, l.id)).collect()
}

fn build_cfg(t: &mut Tape) -> (Cfg, usize) {
    let mut co = CfgOpts::unified();
    co.side_by_side = None;
    co.allow_presets = false;
    co.allow_navigate = false;
    let mut cfg = gen_tagged_cfg(t, &co);
    for k in ["max-line-length", "features", "relative-paths"] {
        cfg.unset(k);
    }
    if cfg.has("side-by-side") {
        cfg.set("width", "300");
    }
    let n = *t.pick(&[32usize, 0, 1, 2, 3, 5, 8]);
    // "unlimited": the largest values the option accepts (the bound N+1 then allows any lag, but the
    // stream must still be rendered, line by line as far as the bound demands, and never revised)
    let mut big = t.fork(9);
    let n = if big.chance(1, 12) { *big.pick(&[usize::MAX, usize::MAX - 1, 1usize << 62, 1usize << 40, 1_000_000_000_000]) } else { n };
    cfg.set("line-buffer-size", &n.to_string());
    (cfg, n)
}

impl Prop for C11 {
    fn id(&self) -> &'static str {
        "C11"
    }
    fn cases(&self, tier: Tier) -> usize {
        match tier {
            Tier::Quick => 6_000,
            Tier::Thorough => 150_000,
        }
    }
    fn tape_len(&self, _t: Tier) -> usize {
        6000
    }
    fn rule(&self) -> String {
        "cases = git diff stream (1-3 file sections, two-way or combined, 1-3 hunks each, runs of removed/added lines of lengths 0,1,N-1..N+2,2N+1,2N+3, 1-8 and occasionally 40-300, `\\ No newline` lines, sub-hunks separated by 0-3 unchanged lines) with a unique sentinel in every hunk line x line-buffer-size N in {0,1,2,3,5,8,32} x tagged option set (unified / side-by-side, line numbers, themes). delta is driven by a reader that hands over one line per request and a recording writer; W(k) = bytes written when line k+1 is requested. Oracle at EVERY prefix k that ends inside a hunk: every hunk line before the currently open run of removed/added lines is visible in W(k); the absent ones number <= N+1; the section's file header is written; W(k) is a prefix of the output for the first k lines alone (one random k per case) and of the whole output. Real binary: the same rule on snapshots taken over pipes when the process is observed blocked in read(0). Non-trivial = some run longer than N+1 and >= 2 hunks; distinct by hash of (input, argv).".to_string()
    }
    fn assumptions(&self) -> Vec<String> {
        vec![
            "a hunk line counts as written when its sentinel is visible in the escape-stripped bytes".to_string(),
            "side-by-side cases use a width at which no generated line wraps".to_string(),
            "merge-conflict regions (buffered by design until the closing marker) are not generated".to_string(),
            "binary probes: quiescence = main thread blocked in read on fd 0 per /proc/<pid>/syscall; a probe where this cannot be observed is counted inconclusive".to_string(),
        ]
    }
    fn needs_binary(&self) -> bool {
        true
    }
    fn check(&self, t: &mut Tape, ctx: &mut Ctx) -> Verdict {
        let (cfg, n) = build_cfg(t);
        let case = gen_case(t, n);
        let pick_k = t.below(case.lines.len() + 1);
        let input: Vec<u8> = case.lines.iter().flat_map(|l| format!("{}\n", l.text).into_bytes()).collect();
        let sess = match exec::session(&cfg, ctx) {
            Ok(s) => s,
            Err(mut f) => {
                f.detail = json!({"case": exec::case_json(&cfg, &input)});
                return Verdict::Fail(f);
            }
        };
        let sh = Rc::new(RefCell::new(Shared { out: Vec::new(), snaps: Vec::new(), max_burst: 0 }));
        let reader = LineReader { lines: case.lines.iter().map(|l| format!("{}\n", l.text).into_bytes()).collect(), next: 0, cur: Vec::new(), pos: 0, sh: sh.clone() };
        let mut rec = Recorder(sh.clone());
        let detail0 = json!({"case": exec::case_json(&cfg, &input), "line_buffer_size": n});
        match guarded(|| sess.run_stream(reader, &mut rec)) {
            Ok(Ok(())) => {}
            Ok(Err(e)) => return Verdict::Fail(Failure::new(format!("io-error:{:?}", e.kind()), format!("delta() returned an I/O error on an in-memory writer: {}", e)).with(detail0)),
            Err(p) => {
                let mut f = p.failure();
                f.detail = detail0;
                f.traits = crate::props::c03::failure_traits(&cfg, &input);
                return Verdict::Fail(f);
            }
        }
        let shared = sh.borrow();
        let out = &shared.out;
        let snaps = &shared.snaps;
        let meta = meta_of(&case);
        let fail = |sig: &str, msg: String, traits: Vec<String>, k: usize| {
            Verdict::Fail(
                Failure::new(format!("C11:{}", sig), msg)
                    .with(json!({"case": exec::case_json(&cfg, &input), "line_buffer_size": n, "prefix_lines": k,
                        "input_prefix_tail": case.lines[k.saturating_sub(12)..k].iter().map(|l| l.text.clone()).collect::<Vec<_>>(),
                        "written_so_far_tail": tail_of(&out[..snaps.get(k).copied().unwrap_or(out.len())])}))
                    .traits(traits),
            )
        };
        if snaps.len() != case.lines.len() + 1 {
            return fail("reader-protocol", format!("delta asked for input {} times for {} lines (expected one request per line and one at the end)", snaps.len(), case.lines.len()), vec![], 0);
        }
        // whole output: which sentinels are visible at all
        let (mut final_present, mut final_paths) = (BTreeSet::new(), BTreeSet::new());
        tokens_in(&term::visible_text(out), &mut final_present, &mut final_paths);
        let total_ids = case.lines.iter().filter(|l| l.id.is_some()).count();
        if final_present.len() != total_ids {
            let missing: Vec<usize> = (0..total_ids).filter(|i| !final_present.contains(i)).take(5).collect();
            return fail("sentinel-missing-in-final-output", format!("hunk lines with sentinels {:?} never appear in the complete output", missing), vec![], case.lines.len());
        }
        // incremental scan of W(k)
        let (mut present, mut paths_present) = (BTreeSet::new(), BTreeSet::new());
        let mut prev = 0usize;
        let mut max_pending = 0usize;
        let mut per_side: Option<(String, String, Vec<String>, usize)> = None;
        for k in 0..=case.lines.len() {
            let end = snaps[k];
            if end < prev {
                return fail("output-shrank", format!("the bytes written shrank between prefix {} and {}", k.saturating_sub(1), k), vec![], k);
            }
            if end > prev {
                tokens_in(&term::visible_text(&out[prev..end]), &mut present, &mut paths_present);
                prev = end;
            }
            if let Some((sig, msg, traits)) = lag_violation(&meta, k, n, &present, &paths_present, &final_paths) {
                // re-derive from the whole of W(k) before reporting (an escape sequence state
                // carried across the increment boundary must not cause an alarm)
                let (mut p2, mut pp2) = (BTreeSet::new(), BTreeSet::new());
                tokens_in(&term::visible_text(&out[..end]), &mut p2, &mut pp2);
                if let Some((sig2, msg2, traits2)) = lag_violation(&meta, k, n, &p2, &pp2, &final_paths) {
                    let _ = (sig, msg, traits);
                    if traits2.len() == 2 {
                        // the per-side limit (a listed finding): remember the first occurrence and
                        // go on, so that any other violation in this case is reported instead
                        if per_side.is_none() {
                            per_side = Some((sig2, msg2, traits2, k));
                        }
                    } else {
                        return fail(&sig2, msg2, traits2, k);
                    }
                }
            }
            let fed_ids = case.lines[..k].iter().filter(|l| l.id.is_some()).count();
            max_pending = max_pending.max(fed_ids - present.len().min(fed_ids));
        }
        // W(k) is a prefix of what delta writes for the first k lines alone
        {
            let k = pick_k;
            let prefix_input: Vec<u8> = case.lines[..k].iter().flat_map(|l| format!("{}\n", l.text).into_bytes()).collect();
            match exec::run(&sess, &prefix_input) {
                Ok(o) => {
                    if !o.starts_with(&out[..snaps[k]]) {
                        return fail("not-a-prefix-of-prefix-output", format!("what was written after {} lines is not a prefix of what delta writes for those {} lines alone", k, k), vec![], k);
                    }
                }
                Err(mut f) => {
                    f.detail = json!({"case": exec::case_json(&cfg, &prefix_input)});
                    f.traits = crate::props::c03::failure_traits(&cfg, &prefix_input);
                    return Verdict::Fail(f);
                }
            }
        }
        ctx.class_if(per_side.is_some(), "per-side-limit-exceeds-n-plus-1");
        // classes
        let mut longest = 0usize;
        let mut cur = 0usize;
        for l in &case.lines {
            if matches!(l.kind, K::Minus | K::Plus) {
                cur += 1;
                longest = longest.max(cur);
            } else {
                cur = 0;
            }
        }
        let hunks = case.lines.iter().filter(|l| l.kind == K::HunkHeader).count();
        ctx.class_if(cfg.has("side-by-side"), "side-by-side");
        ctx.class_if(longest > n.saturating_add(1), "run-longer-than-buffer");
        ctx.class_if(longest >= 40, "run-of-40-or-more");
        ctx.class_if(max_pending > 0, "some-lines-pending-at-some-prefix");
        ctx.class(&format!("N={}", n));
        let _ = case.n_sections;
        if longest > n.saturating_add(1) && hunks >= 2 {
            let mut h = fnv(&input);
            h = fnv_add(h, &cfg.fingerprint().to_le_bytes());
            ctx.nontrivial(h);
            if ctx.want_sample() {
                ctx.sample(json!({"line_buffer_size": n, "argv_mode": if cfg.has("side-by-side") { "side-by-side" } else { "unified" }, "input_lines": case.lines.len(), "longest_run": longest, "max_lines_pending": max_pending, "largest_write_burst_bytes": shared.max_burst, "input_head": exec::printable(&input[..input.len().min(500)])}));
            }
        }
        if ctx.want_xcheck() && cfg.gitconfig.is_none() {
            ctx.xchecks.push(json!({"argv": cfg.args(None), "env": exec::env_from_spec(&cfg.env), "n": n, "pager_mode": fnv(&input) % 3 == 0,
                "lines": case.lines.iter().map(|l| l.text.clone()).collect::<Vec<_>>(),
                "meta": case.lines.iter().map(|l| json!([match l.kind { K::Header => 0, K::HunkHeader => 1, K::Ctx => 2, K::Minus => 3, K::Plus => 4, K::NoNewline => 5 }, l.sec, l.id])).collect::<Vec<_>>(),
                "out_hash": format!("{:016x}", fnv(out))}));
        }
        if let Some((sig, msg, traits, k)) = per_side {
            return fail(&sig, msg, traits, k);
        }
        Verdict::Pass
    }
    fn supervisor_phase(&self, sup: &mut Sup) {
        binary_probes(sup);
    }
    fn replay_supervisor_case(&self, case: &Value) -> Option<Verdict> {
        let delta = crate::runner::verif_root().join("target/bin/release/delta");
        let home = crate::runner::verif_root().join(format!("target/scratch/c11-home-{}", std::process::id()));
        let _ = std::fs::create_dir_all(&home);
        let mut stats = (0, 0, 0);
        let r = if case["mode"].as_str() == Some("launched") { launched_probe(&delta, &home, case, 0) } else { judge_stream(&delta, &home, case, &mut stats) };
        let _ = std::fs::remove_dir_all(&home);
        match r {
            Ok(Some(Some((f, v)))) => Some(Verdict::Fail(f.with(v))),
            Ok(Some(None)) => Some(Verdict::Pass),
            _ => None,
        }
    }
}

// ---------------------------------------------------------------------------------------------
// real binary over pipes

fn blocked_in_read0(pid: u32) -> Option<bool> {
    let s = std::fs::read_to_string(format!("/proc/{}/syscall", pid)).ok()?;
    let mut it = s.split_whitespace();
    let nr = it.next()?;
    if nr == "running" {
        return Some(false);
    }
    let a0 = it.next().unwrap_or("");
    Some(nr == "0" && (a0 == "0x0" || a0 == "0"))
}

fn voluntary_switches(pid: u32) -> Option<u64> {
    let s = std::fs::read_to_string(format!("/proc/{}/task/{}/status", pid, pid)).ok()?;
    s.lines().find_map(|l| l.strip_prefix("voluntary_ctxt_switches:")).and_then(|v| v.trim().parse().ok())
}

/// bytes the process has passed to write calls so far
fn written_bytes(pid: u32) -> Option<u64> {
    let s = std::fs::read_to_string(format!("/proc/{}/io", pid)).ok()?;
    s.lines().find_map(|l| l.strip_prefix("wchar:")).and_then(|v| v.trim().parse().ok())
}

fn drain(fd: &mut std::process::ChildStdout, into: &mut Vec<u8>) -> bool {
    // non-blocking read until EAGAIN; returns false at EOF
    let mut buf = [0u8; 65536];
    loop {
        match fd.read(&mut buf) {
            Ok(0) => return false,
            Ok(n) => into.extend_from_slice(&buf[..n]),
            Err(e) if e.kind() == std::io::ErrorKind::WouldBlock => return true,
            Err(e) if e.kind() == std::io::ErrorKind::Interrupted => continue,
            Err(_) => return false,
        }
    }
}

/// Ok(Some(snaps, out)) / Ok(None) = inconclusive
/// the process whose parent is `ppid` (the pager delta started)
fn child_of(ppid: u32) -> Option<u32> {
    for e in std::fs::read_dir("/proc").ok()?.flatten() {
        let name = e.file_name();
        let pid: u32 = match name.to_string_lossy().parse() {
            Ok(p) => p,
            Err(_) => continue,
        };
        if let Ok(st) = std::fs::read_to_string(format!("/proc/{}/stat", pid)) {
            // pid (comm) state ppid ...
            if let Some(rest) = st.rfind(')').map(|i| &st[i + 1..]) {
                let mut it = rest.split_whitespace();
                let _state = it.next();
                if it.next().and_then(|p| p.parse::<u32>().ok()) == Some(ppid) {
                    return Some(pid);
                }
            }
        }
    }
    None
}

fn probe(delta: &std::path::Path, args: &[String], env: &[(String, String)], home: &std::path::Path, lines: &[String], pager: bool) -> std::io::Result<Option<(Vec<usize>, Vec<u8>, Option<i32>)>> {
    use std::os::unix::io::AsRawFd;
    use std::process::{Command, Stdio};
    let mut cmd = Command::new(delta);
    // --paging=never: delta itself writes to our pipe.  Pager mode: delta writes to the pipe of
    // a pager it starts (`cat`, which copies what it reads at once to our pipe); a snapshot is
    // then taken when delta AND the pager are blocked asking for more input.
    cmd.args(args).arg(if pager { "--paging=always" } else { "--paging=never" }).env_clear().env("PATH", "/usr/bin:/bin").env("HOME", home).env("XDG_CONFIG_HOME", home.join(".config")).env("GIT_CONFIG_NOSYSTEM", "1").env("TERM", "xterm-256color");
    for (k, v) in env {
        cmd.env(k, v);
    }
    if pager {
        cmd.env("DELTA_PAGER", "/usr/bin/cat");
    }
    cmd.stdin(Stdio::piped()).stdout(Stdio::piped()).stderr(Stdio::null());
    let mut child = cmd.spawn()?;
    let pid = child.id();
    let mut base: Option<(u64, u64)> = None;
    let mut stdin = child.stdin.take().unwrap();
    let mut stdout = child.stdout.take().unwrap();
    unsafe {
        let fd = stdout.as_raw_fd();
        let fl = libc::fcntl(fd, libc::F_GETFL);
        libc::fcntl(fd, libc::F_SETFL, fl | libc::O_NONBLOCK);
    }
    let mut out = Vec::new();
    let mut snaps = Vec::new();
    let in_fd = stdin.as_raw_fd();
    // `since`: the main thread's count of voluntary context switches before the line was written
    // (it was blocked then); having run and blocked again, the count is larger
    let mut wait_quiet = |out: &mut Vec<u8>, stdout: &mut std::process::ChildStdout, since: Option<u64>| -> bool {
        let t0 = Instant::now();
        loop {
            drain(stdout, out);
            if let Some(v0) = since {
                match voluntary_switches(pid) {
                    Some(v) if v > v0 => {}
                    Some(_) => {
                        if t0.elapsed() > Duration::from_secs(5) {
                            return false;
                        }
                        std::thread::yield_now();
                        continue;
                    }
                    None => return false,
                }
            }
            // first the process must have taken everything out of the pipe (a task that has
            // been woken but has not run yet still looks blocked in read), ...
            let mut pending: libc::c_int = 0;
            let r = unsafe { libc::ioctl(in_fd, libc::FIONREAD, &mut pending) };
            if r != 0 {
                return false;
            }
            if pending > 0 {
                if t0.elapsed() > Duration::from_secs(5) {
                    return false;
                }
                std::thread::yield_now();
                continue;
            }
            // ... then be blocked asking for more
            match blocked_in_read0(pid) {
                Some(true) => {
                    if pager {
                        // everything delta has written so far (its write counter in
                        // /proc/<pid>/io) must have come through the pager to us: a conservation
                        // condition, no timing involved
                        let w = match written_bytes(pid) {
                            Some(w) => w,
                            None => return false,
                        };
                        let (w0, r0) = *base.get_or_insert((w, out.len() as u64));
                        let target = r0 + (w - w0);
                        let t1 = Instant::now();
                        while (out.len() as u64) < target {
                            drain(stdout, out);
                            if t1.elapsed() > Duration::from_secs(5) {
                                return false;
                            }
                            std::thread::sleep(Duration::from_micros(100));
                        }
                    }
                    drain(stdout, out);
                    return true;
                }
                Some(false) => {}
                None => return false,
            }
            if t0.elapsed() > Duration::from_secs(5) {
                return false;
            }
            std::thread::yield_now();
        }
    };
    let mut ok = wait_quiet(&mut out, &mut stdout, None);
    snaps.push(out.len());
    if ok {
        for l in lines {
            let v0 = voluntary_switches(pid);
            if v0.is_none() || stdin.write_all(format!("{}\n", l).as_bytes()).is_err() {
                ok = false;
                break;
            }
            if !wait_quiet(&mut out, &mut stdout, v0) {
                ok = false;
                break;
            }
            snaps.push(out.len());
        }
    }
    drop(stdin);
    if !ok {
        let _ = child.kill();
        let _ = child.wait();
        return Ok(None);
    }
    // read to EOF
    let t0 = Instant::now();
    loop {
        if !drain(&mut stdout, &mut out) {
            break;
        }
        if t0.elapsed() > Duration::from_secs(20) {
            let _ = child.kill();
            let _ = child.wait();
            return Ok(None);
        }
        std::thread::sleep(Duration::from_micros(200));
    }
    let st = child.wait()?;
    Ok(Some((snaps, out, st.code())))
}

/// judge one recorded stream through the real binary; Ok(None) = inconclusive
fn judge_stream(delta: &std::path::Path, home: &std::path::Path, x: &Value, stats: &mut (u64, u64, u64)) -> Result<Option<Option<(Failure, Value)>>, String> {
    let args: Vec<String> = x["argv"].as_array().map(|a| a.iter().map(|s| s.as_str().unwrap_or("").to_string()).collect()).unwrap_or_default();
    let env: Vec<(String, String)> = x["env"].as_array().map(|a| a.iter().filter_map(|p| Some((p[0].as_str()?.to_string(), p[1].as_str()?.to_string()))).collect()).unwrap_or_default();
    let lines: Vec<String> = x["lines"].as_array().map(|a| a.iter().map(|s| s.as_str().unwrap_or("").to_string()).collect()).unwrap_or_default();
    let n = x["n"].as_u64().unwrap_or(32) as usize;
    let meta: Vec<(K, usize, Option<usize>)> = x["meta"]
        .as_array()
        .map(|a| {
            a.iter()
                .map(|m| {
                    let k = match m[0].as_u64().unwrap_or(0) {
                        0 => K::Header,
                        1 => K::HunkHeader,
                        2 => K::Ctx,
                        3 => K::Minus,
                        4 => K::Plus,
                        _ => K::NoNewline,
                    };
                    (k, m[1].as_u64().unwrap_or(0) as usize, m[2].as_u64().map(|v| v as usize))
                })
                .collect()
        })
        .unwrap_or_default();
    let pager = x["pager_mode"].as_bool().unwrap_or(false);
    let r = probe(delta, &args, &env, home, &lines, pager).map_err(|e| e.to_string())?;
    let (snaps, out, status) = match r {
        Some(v) => v,
        None => return Ok(None),
    };
    if status != Some(0) {
        return Ok(Some(Some((Failure::new(format!("C11:binary-exit@{:?}", status), format!("real binary fed line by line exited with {:?}", status)), x.clone()))));
    }
    let (mut fp, mut fpaths) = (BTreeSet::new(), BTreeSet::new());
    tokens_in(&term::visible_text(&out), &mut fp, &mut fpaths);
    if Some(format!("{:016x}", fnv(&out)).as_str()) == x["out_hash"].as_str() {
        stats.1 += 1;
    }
    for k in 0..snaps.len() {
        let (mut p, mut pp) = (BTreeSet::new(), BTreeSet::new());
        tokens_in(&term::visible_text(&out[..snaps[k]]), &mut p, &mut pp);
        stats.0 += 1;
        if let Some((sig, msg, traits)) = lag_violation(&meta, k, n, &p, &pp, &fpaths) {
            if traits.len() == 2 {
                stats.2 += 1;
                continue;
            }
            let mut v: Value = x.clone();
            v["prefix_lines"] = json!(k);
            v["written_so_far_tail"] = json!(tail_of(&out[..snaps[k]]));
            let mode = if pager { "pager:" } else { "" };
            return Ok(Some(Some((Failure::new(format!("C11:binary:{}{}", mode, sig), format!("real binary over pipes{}: {}", if pager { " (writing to a pager)" } else { "" }, msg)).traits(traits), v))));
        }
    }
    Ok(Some(None))
}

fn binary_probes(sup: &mut Sup) {
    let delta = sup.delta_bin();
    if !delta.exists() {
        sup.infra_errors.push(format!("real binary {} missing", delta.display()));
        return;
    }
    let home = sup.scratch().join(format!("c11-home-{}", std::process::id()));
    let _ = std::fs::create_dir_all(&home);
    let xs = sup.xchecks.clone();
    let (mut probes, mut inconclusive, mut prefixes, mut same_final) = (0u64, 0u64, 0u64, 0u64);
    let mut per_side_seen = 0u64;
    let mut pager_streams = 0u64;
    for x in xs.iter() {
        if x["lines"].as_array().map(|a| a.len()).unwrap_or(0) > 400 {
            continue;
        }
        let mut stats = (0u64, 0u64, 0u64);
        let r = judge_stream(&delta, &home, x, &mut stats);
        prefixes += stats.0;
        if x["pager_mode"].as_bool().unwrap_or(false) {
            pager_streams += 1;
        }
        same_final += stats.1;
        per_side_seen += stats.2;
        match r {
            Err(e) => {
                sup.infra_errors.push(format!("cannot run binary for pipe probes: {}", e));
                break;
            }
            Ok(None) => {
                probes += 1;
                inconclusive += 1;
            }
            Ok(Some(None)) => probes += 1,
            Ok(Some(Some((f, v)))) => {
                probes += 1;
                sup.fail(f, v);
            }
        }
    }
    // delta as the *launcher* of the producer (`delta git diff`): the same streaming must hold when
    // the command's output arrives through the pipe delta created for it
    let (mut lp, mut lincon) = (0u64, 0u64);
    for (i, x) in xs.iter().filter(|x| !x["pager_mode"].as_bool().unwrap_or(false)).take(12).enumerate() {
        match launched_probe(&delta, &home, x, i) {
            Ok(None) => {
                lp += 1;
                lincon += 1;
            }
            Ok(Some(None)) => lp += 1,
            Ok(Some(Some((f, v)))) => {
                lp += 1;
                sup.fail(f, v);
            }
            Err(e) => {
                sup.infra_errors.push(format!("launched-command probe: {}", e));
                break;
            }
        }
    }
    sup.extra.insert("launched_command_probes".into(), json!({"streams": lp, "inconclusive": lincon}));
    let _ = std::fs::remove_dir_all(&home);
    if inconclusive > 0 {
        *sup.notes.entry("pipe_probes_inconclusive".to_string()).or_insert(0) += inconclusive;
    }
    sup.extra.insert("pipe_probes".into(), json!({"streams": probes, "inconclusive": inconclusive, "prefixes_judged": prefixes, "final_output_identical_to_in_process": same_final, "prefixes_with_listed_per_side_lag": per_side_seen, "streams_written_to_a_pager": pager_streams}));
}

/// is the main thread asleep in a read() call (on whatever descriptor)?
/// every thread of `pid` and of its child processes is asleep (state S, inside a system call);
/// whichever call it is: a delta that collects the command's output sleeps in poll(), not read()
fn all_asleep(pid: u32) -> Option<bool> {
    let mut pids = vec![pid];
    let mut i = 0;
    while i < pids.len() {
        let p = pids[i];
        i += 1;
        for t in std::fs::read_dir(format!("/proc/{}/task", p)).ok()? {
            let t = t.ok()?.path();
            let stat = std::fs::read_to_string(t.join("stat")).ok()?;
            let st = stat.rsplit(')').next()?.split_whitespace().next()?.to_string();
            if st != "S" {
                return Some(false);
            }
            let sc = std::fs::read_to_string(t.join("syscall")).unwrap_or_default();
            if sc.trim().is_empty() || sc.starts_with("running") {
                return Some(false);
            }
            if let Ok(ch) = std::fs::read_to_string(t.join("children")) {
                pids.extend(ch.split_whitespace().filter_map(|c| c.parse::<u32>().ok()));
            }
        }
    }
    Some(pids.len() >= 2)
}

/// `delta <opts> git diff` with a stub git that copies a FIFO to its stdout: the probe writes the
/// stream up to (and including) an unchanged hunk line, waits until delta sleeps in read() again,
/// and requires every hunk line written so far to be in delta's output; then sends the rest.
/// Ok(None) = inconclusive (quiescence not observed), Ok(Some(None)) = held.
fn launched_probe(delta: &std::path::Path, home: &std::path::Path, x: &Value, no: usize) -> Result<Option<Option<(Failure, Value)>>, String> {
    use std::io::Write;
    use std::os::unix::io::AsRawFd;
    use std::process::{Command, Stdio};
    let args: Vec<String> = x["argv"].as_array().map(|a| a.iter().map(|s| s.as_str().unwrap_or("").to_string()).collect()).unwrap_or_default();
    let lines: Vec<String> = x["lines"].as_array().map(|a| a.iter().map(|s| s.as_str().unwrap_or("").to_string()).collect()).unwrap_or_default();
    let meta: Vec<(K, usize, Option<usize>)> = x["meta"].as_array().map(|a| a.iter().map(|m| (match m[0].as_u64().unwrap_or(0) { 0 => K::Header, 1 => K::HunkHeader, 2 => K::Ctx, 3 => K::Minus, 4 => K::Plus, _ => K::NoNewline }, m[1].as_u64().unwrap_or(0) as usize, m[2].as_u64().map(|v| v as usize))).collect()).unwrap_or_default();
    if lines.is_empty() || meta.len() != lines.len() {
        return Ok(Some(None));
    }
    // pause after the last unchanged hunk line of the first half
    let cut = match (0..lines.len() / 2 + 1).rev().find(|i| meta[*i].0 == K::Ctx) {
        Some(i) => i + 1,
        None => return Ok(Some(None)),
    };
    let dir = home.join(format!("launched-{}", no));
    let tools = dir.join("tools");
    std::fs::create_dir_all(&tools).map_err(|e| e.to_string())?;
    let stub = crate::runner::verif_root().join("target/stubtool");
    let git = tools.join("git");
    let _ = std::fs::remove_file(&git);
    std::fs::hard_link(&stub, &git).or_else(|_| std::fs::copy(&stub, &git).map(|_| ())).map_err(|e| e.to_string())?;
    let fifo = dir.join("out.fifo");
    let _ = std::fs::remove_file(&fifo);
    let cf = std::ffi::CString::new(fifo.to_string_lossy().as_bytes()).unwrap();
    if unsafe { libc::mkfifo(cf.as_ptr(), 0o600) } != 0 {
        return Err("mkfifo failed".to_string());
    }
    let script = dir.join("script.json");
    std::fs::write(&script, serde_json::to_string(&json!({"by_name": {"git": {"stdout_fifo": fifo, "status": 0}}})).unwrap()).map_err(|e| e.to_string())?;
    let mut cmd = Command::new(delta);
    cmd.args(&args).arg("--paging=never").args(["git", "diff"]).env_clear().env("PATH", format!("{}:/usr/bin:/bin", tools.display())).env("HOME", home).env("XDG_CONFIG_HOME", home.join(".config")).env("GIT_CONFIG_NOSYSTEM", "1").env("TERM", "xterm-256color").env("STUBTOOL_SCRIPT", &script);
    cmd.stdin(Stdio::null()).stdout(Stdio::piped()).stderr(Stdio::null());
    let mut child = cmd.spawn().map_err(|e| e.to_string())?;
    let pid = child.id();
    let mut stdout = child.stdout.take().unwrap();
    unsafe {
        let fd = stdout.as_raw_fd();
        let fl = libc::fcntl(fd, libc::F_GETFL);
        libc::fcntl(fd, libc::F_SETFL, fl | libc::O_NONBLOCK);
    }
    // (the FIFO can be opened for writing once the stand-in command has opened it for reading; a
    // delta that ends before it ever starts the command must not leave the probe waiting)
    use std::os::unix::fs::OpenOptionsExt;
    let t_open = Instant::now();
    let mut w = loop {
        match std::fs::OpenOptions::new().write(true).custom_flags(libc::O_NONBLOCK).open(&fifo) {
            Ok(w) => {
                unsafe {
                    let fl = libc::fcntl(w.as_raw_fd(), libc::F_GETFL);
                    libc::fcntl(w.as_raw_fd(), libc::F_SETFL, fl & !libc::O_NONBLOCK);
                }
                break w;
            }
            Err(e) => {
                let ended = matches!(child.try_wait(), Ok(Some(_)));
                if ended || t_open.elapsed() > Duration::from_secs(20) {
                    let st = child.try_wait().ok().flatten();
                    let _ = child.kill();
                    let _ = child.wait();
                    let mut out: Vec<u8> = Vec::new();
                    drain(&mut stdout, &mut out);
                    let _ = std::fs::remove_dir_all(&dir);
                    if let Some(st) = st {
                        if !st.success() {
                            let case = json!({"argv": args, "launched": ["git", "diff"], "lines_sent_before_the_pause": 0, "lines": lines, "meta": x["meta"], "mode": "launched"});
                            return Ok(Some(Some((Failure::new("C11:launched:ended-before-reading", format!("`delta ... git diff` ended with {:?} before its command had produced anything", st)), case))));
                        }
                    }
                    return Err(format!("cannot open the fifo: {} (delta ended: {:?}) argv {:?}", e, st, args));
                }
                std::thread::sleep(Duration::from_millis(5));
            }
        }
    };
    let part1: String = lines[..cut].iter().map(|l| format!("{}\n", l)).collect();
    let _ = w.write_all(part1.as_bytes());
    let _ = w.flush();
    // quiescence: the FIFO is empty (the command has taken everything), delta and the command are
    // both asleep in a system call, and the output has not grown, at four looks 40 ms apart
    let mut out: Vec<u8> = Vec::new();
    let t0 = Instant::now();
    let mut quiet = false;
    let mut last_len = usize::MAX;
    let mut same = 0;
    while t0.elapsed() < Duration::from_secs(6) {
        drain(&mut stdout, &mut out);
        let mut pending: libc::c_int = -1;
        unsafe { libc::ioctl(w.as_raw_fd(), libc::FIONREAD, &mut pending) };
        if pending == 0 && all_asleep(pid) == Some(true) && out.len() == last_len {
            same += 1;
            if same >= 3 {
                quiet = true;
                break;
            }
        } else {
            same = 0;
        }
        last_len = out.len();
        std::thread::sleep(Duration::from_millis(40));
    }
    let snapshot = out.clone();
    let rest: String = lines[cut..].iter().map(|l| format!("{}\n", l)).collect();
    let _ = w.write_all(rest.as_bytes());
    drop(w);
    let t1 = Instant::now();
    loop {
        let more = drain(&mut stdout, &mut out);
        if let Ok(Some(_)) = child.try_wait() {
            drain(&mut stdout, &mut out);
            break;
        }
        if !more || t1.elapsed() > Duration::from_secs(10) {
            let _ = child.kill();
            let _ = child.wait();
            break;
        }
        std::thread::sleep(Duration::from_millis(5));
    }
    let _ = std::fs::remove_dir_all(&dir);
    if !quiet {
        return Ok(None);
    }
    let (mut present, mut paths) = (BTreeSet::new(), BTreeSet::new());
    tokens_in(&term::visible_text(&snapshot), &mut present, &mut paths);
    let missing: Vec<usize> = meta[..cut].iter().filter_map(|m| m.2).filter(|id| !present.contains(id)).collect();
    let case = json!({"argv": args, "launched": ["git", "diff"], "lines_sent_before_the_pause": cut, "lines": lines, "meta": x["meta"], "mode": "launched"});
    if !missing.is_empty() {
        return Ok(Some(Some((
            Failure::new("C11:launched:output-held-back", format!("`delta ... git diff`: the command had written {} lines (the last one an unchanged hunk line) and paused; delta and the command were both asleep but {} hunk lines (first: sentinel Q{}Z) had not been written", cut, missing.len(), missing[0])),
            case,
        ))));
    }
    if !out.starts_with(&snapshot) {
        return Ok(Some(Some((Failure::new("C11:launched:output-revised", "what was written while the command paused is not a prefix of the final output".to_string()), case))));
    }
    Ok(Some(None))
}

pub fn debug_probe(x: &Value) {
    let args: Vec<String> = x["argv"].as_array().map(|a| a.iter().map(|s| s.as_str().unwrap_or("").to_string()).collect()).unwrap_or_default();
    let lines: Vec<String> = x["lines"].as_array().map(|a| a.iter().map(|s| s.as_str().unwrap_or("").to_string()).collect()).unwrap_or_default();
    let delta = crate::runner::verif_root().join("target/bin/release/delta");
    let home = std::path::PathBuf::from("/tmp/c11-dbg-home");
    let _ = std::fs::create_dir_all(&home);
    match probe(&delta, &args, &[], &home, &lines, x["pager_mode"].as_bool().unwrap_or(false)) {
        Ok(Some((snaps, out, st))) => println!("snaps {:?} total {} status {:?}", snaps, out.len(), st),
        other => println!("{:?}", other.map(|o| o.is_some())),
    }
}
