//! C15 — syntax highlighting only recolours foregrounds, by the file's language.
use serde_json::json;

use crate::exec;
use crate::gen::code;
use crate::gen::config::{gen_tagged_cfg, Cfg, CfgOpts, Tag, DARK_THEMES, LIGHT_THEMES, TAGGED_STYLES};
use crate::gen::diff::{finish_hunk, render_section, lines_to_bytes, HLine, Hunk, Section, LK, SK};
use crate::refstyle::{self, ColorSpec};
use crate::rows::{self, RowKind};
use crate::runner::{Ctx, Failure, Prop, Sup, Tier, Verdict};
use crate::tape::{fnv, fnv_add, Tape};
use crate::term::{self, Color, Row};

pub struct C15;

fn gen_hunk(t: &mut Tape, lines_pool: &[&str], old: usize, new: usize) -> Hunk {
    let n = t.range(1, 7);
    let mut lines: Vec<HLine> = Vec::new();
    let mk = |kind: LK, text: String| HLine { kind, prefix: match kind { LK::Ctx => " ", LK::Minus => "-", LK::Plus => "+" }.to_string(), text, no_newline_after: false };
    while lines.len() < n {
        match t.weighted(&[3, 4]) {
            0 => lines.push(mk(LK::Ctx, code::line(t, lines_pool))),
            _ => {
                let a = code::line(t, lines_pool);
                let b = if t.coin() { a.replacen(char::is_alphabetic, "Z", 1) } else { code::line(t, lines_pool) };
                if t.chance(3, 4) {
                    lines.push(mk(LK::Minus, a));
                }
                if t.chance(3, 4) {
                    lines.push(mk(LK::Plus, b));
                }
            }
        }
    }
    let frag = if t.coin() { code::line(t, lines_pool).trim().to_string() } else { String::new() };
    finish_hunk(old, new, lines, frag, false, 1)
}

fn section_of(kind: SK, name: &str, hunks: Vec<Hunk>) -> Section {
    Section { kind, old_path: name.to_string(), new_path: name.to_string(), old_mode: "100644".into(), new_mode: "100644".into(), hunks, parents: 1, prefixes: ("a/".into(), "b/".into()) }
}

fn section(name: &str, hunks: Vec<Hunk>) -> Section {
    Section { kind: SK::Modified, old_path: name.to_string(), new_path: name.to_string(), old_mode: "100644".into(), new_mode: "100644".into(), hunks, parents: 1, prefixes: ("a/".into(), "b/".into()) }
}

fn bytes_of(s: &Section) -> Vec<u8> {
    let mut out = Vec::new();
    render_section(s, 0, &mut out);
    lines_to_bytes(&out, true)
}

/// does the style option of the element that painted a cell with this tag ask for `syntax`?
fn style_of_tag<'a>(cfg: &'a Cfg, tag: Tag) -> Option<&'a str> {
    TAGGED_STYLES.iter().find(|(_, t, _)| *t == tag).and_then(|(name, _, _)| cfg.get(name))
}

fn content_rows(out: &[u8]) -> Vec<Row> {
    let sc = term::decode(out);
    let cr = rows::classify_all(&sc);
    cr.iter().filter(|c| matches!(c.kind, RowKind::Minus | RowKind::Plus | RowKind::Zero | RowKind::Mixed)).map(|c| c.row.clone()).collect()
}

impl Prop for C15 {
    fn id(&self) -> &'static str {
        "C15"
    }
    fn cases(&self, tier: Tier) -> usize {
        match tier {
            Tier::Quick => 8_000,
            Tier::Thorough => 150_000,
        }
    }
    fn tape_len(&self, _t: Tier) -> usize {
        2500
    }
    fn rule(&self) -> String {
        "cases = git diff of one file with 1-3 hunks of real code lines (rs, py, c, js, sh, toml, Makefile, cmake) x tagged option set (unified or side-by-side; each style with or without `syntax`) x ordered pair of syntax themes of the same light/dark class (or `none`) x a second file name of the same language (other stem/directory; a whole file name the language registers vs a name with its extension: Makefile/GNUmakefile/Makefile.am vs x.mk, CMakeLists.txt vs x.cmake, Cargo.lock/Pipfile vs x.toml, SConstruct vs x.py), also for an added / deleted file and plain `diff -u` output, and the same section followed by a section of another language or a name without language plus --default-language. Oracle (both runs decoded by the terminal model): every cell has the same character, background and attributes under both themes; its foreground may differ only where the style of the element that painted it (known from the tag) asks for `syntax`, and equals the configured foreground elsewhere; content rows are cell-for-cell identical after renaming within the language and for an unknown name under the matching default language; the rows of each hunk equal those of the hunk rendered alone. Non-trivial = >=1 row on which the two themes produce different foregrounds; distinct by hash of (input, argv, themes).".to_string()
    }
    fn assumptions(&self) -> Vec<String> {
        vec![
            "terminal model; tag attribution; reference style parser for configured foregrounds".to_string(),
            "correctness of syntect's grammars is not part of the claim".to_string(),
        ]
    }
    fn needs_binary(&self) -> bool {
        true
    }
    fn check(&self, t: &mut Tape, ctx: &mut Ctx) -> Verdict {
        let mut co = CfgOpts::unified();
        co.side_by_side = None;
        co.allow_presets = false;
        co.allow_hyperlinks = false;
        co.allow_navigate = false;
        co.min_width = 40;
        let mut cfg = gen_tagged_cfg(t, &co);
        cfg.unset("features");
        cfg.unset("max-line-length");
        // (beyond this length a line is highlighted only at its start; its text must be complete all the same)
        match t.fork(5).weighted(&[5, 1, 1, 1]) {
            0 => cfg.unset("max-syntax-highlighting-length"),
            1 => cfg.set("max-syntax-highlighting-length", "10"),
            2 => cfg.set("max-syntax-highlighting-length", "25"),
            _ => cfg.set("max-syntax-highlighting-length", "50"),
        }
        ctx.class_if(cfg.get("max-syntax-highlighting-length").is_some(), "short-max-syntax-highlighting-length");
        cfg.unset("default-language");
        cfg.unset("relative-paths");
        // the hunk styles may come from the git config instead of the command line (the option set
        // that is run is derived from `cfg` at the last moment, so that the oracle below keeps
        // reading the styles from `cfg`)
        let via_gitconfig = t.chance(1, 4);
        ctx.class_if(via_gitconfig, "hunk-styles-from-gitconfig");
        let to_run = move |c: &Cfg| -> Cfg {
            let mut c = c.clone();
            if via_gitconfig {
                let mut g = c.gitconfig.take().unwrap_or_default();
                g.push_str("[delta]\n");
                for k in ["minus-style", "minus-emph-style", "minus-non-emph-style", "plus-style", "plus-emph-style", "zero-style"] {
                    if let Some(v) = c.get(k).map(|s| s.to_string()) {
                        g.push_str(&format!("    {} = \"{}\"\n", k, v));
                        c.unset(k);
                    }
                }
                c.gitconfig = Some(g);
            }
            c
        };
        let dark = cfg.has("dark");
        let themes = if dark { DARK_THEMES } else { LIGHT_THEMES };
        let t1 = t.ps(themes);
        let mut t2 = t.ps(themes);
        if t2 == t1 {
            t2 = if t1 == "none" { themes[1] } else { "none" };
        }
        let (lang, pool) = code::lang(t);
        let (name1, name2) = code::two_names(t, lang);
        let nh = t.range(1, 3);
        let mut hunks = Vec::new();
        let (mut old, mut new) = (t.range(1, 500), t.range(1, 500));
        for _ in 0..nh {
            let h = gen_hunk(t, pool, old, new);
            old += h.lines.len() + t.range(1, 20);
            new += h.lines.len() + t.range(1, 20);
            hunks.push(h);
        }
        let sec1 = section(&name1, hunks.clone());
        let input = bytes_of(&sec1);
        ctx.class(lang);
        let mut cfg1 = cfg.clone();
        cfg1.set("syntax-theme", t1);
        let mut cfg2 = cfg.clone();
        cfg2.set("syntax-theme", t2);
        let truecolor = cfg.get("true-color") == Some("always");
        let run = |c: &Cfg, input: &[u8], ctx: &Ctx| -> Result<Vec<u8>, Failure> {
            let c = &to_run(c);
            exec::run_cfg(c, ctx, input).map_err(|mut f| {
                f.detail = json!({"case": exec::case_json(c, input)});
                f.traits = crate::props::c03::failure_traits(c, input);
                f
            })
        };
        let out1 = match run(&cfg1, &input, ctx) {
            Ok(o) => o,
            Err(f) => return Verdict::Fail(f),
        };
        let out2 = match run(&cfg2, &input, ctx) {
            Ok(o) => o,
            Err(f) => return Verdict::Fail(f),
        };
        let (s1, s2) = (term::decode(&out1), term::decode(&out2));
        let detail = |extra: serde_json::Value| json!({"case": exec::case_json(&cfg1, &input), "theme_a": t1, "theme_b": t2, "more": extra});
        if s1.rows.len() != s2.rows.len() {
            return Verdict::Fail(Failure::new("C15:row-count", format!("themes `{}` and `{}` give {} vs {} output rows", t1, t2, s1.rows.len(), s2.rows.len())).with(detail(json!(null))));
        }
        let mut fg_differs = false;
        for (ri, (a, b)) in s1.rows.iter().zip(s2.rows.iter()).enumerate() {
            if a.cells.len() != b.cells.len() {
                return Verdict::Fail(Failure::new("C15:characters-change", format!("row {}: `{}` under `{}` but `{}` under `{}`", ri, a.text(), t1, b.text(), t2)).with(detail(json!(null))));
            }
            for (ci, (x, y)) in a.cells.iter().zip(b.cells.iter()).enumerate() {
                if x.text != y.text {
                    return Verdict::Fail(Failure::new("C15:characters-change", format!("row {} cell {}: `{}` under `{}` but `{}` under `{}`", ri, ci, x.text, t1, y.text, t2)).with(detail(json!(null))));
                }
                if x.st.bg != y.st.bg || x.st.attrs != y.st.attrs {
                    return Verdict::Fail(
                        Failure::new("C15:background-or-attributes-change", format!("row {} `{}`, character {} `{}`: {:?} under theme `{}` but {:?} under `{}`", ri, a.text(), ci, x.text, x.st, t1, y.st, t2)).with(detail(json!(null))),
                    );
                }
                let tag = Tag::from_color(x.st.bg);
                let style = tag.and_then(|tg| style_of_tag(&cfg, tg));
                let spec = style.and_then(|s| refstyle::parse_style(s, truecolor));
                match spec {
                    Some(sp) if sp.fg == ColorSpec::Syntax => {
                        if x.st.fg != y.st.fg {
                            fg_differs = true;
                        }
                    }
                    Some(sp) => {
                        // a style that does not ask for syntax keeps exactly its configured foreground
                        let want = match sp.fg {
                            ColorSpec::Color(c) => c,
                            _ => Color::Default,
                        };
                        for (st, th) in [(x.st, t1), (y.st, t2)] {
                            if st.fg != want {
                                return Verdict::Fail(
                                    Failure::new("C15:foreground-of-non-syntax-style", format!("row {} `{}`, character {} `{}` is painted by `{}` (no `syntax`): foreground must be {:?}, is {:?} under theme `{}`", ri, a.text(), ci, x.text, style.unwrap_or(""), want, st.fg, th))
                                        .with(detail(json!(null))),
                                );
                            }
                        }
                    }
                    None => {
                        // untagged cell (blank padding, separators): must not depend on the theme
                        if x.st.fg != y.st.fg {
                            return Verdict::Fail(Failure::new("C15:foreground-of-untagged-cell", format!("row {} `{}` character {} `{}`: foreground {:?} vs {:?} although no style asks for syntax there", ri, a.text(), ci, x.text, x.st.fg, y.st.fg)).with(detail(json!(null))));
                        }
                    }
                }
            }
        }
        // renaming within the language leaves the hunk rows unchanged
        let sec2 = section(&name2, hunks.clone());
        let out_ren = match run(&cfg1, &bytes_of(&sec2), ctx) {
            Ok(o) => o,
            Err(f) => return Verdict::Fail(f),
        };
        let (ra, rb) = (content_rows(&out1), content_rows(&out_ren));
        if ra.len() != rb.len() || ra.iter().zip(rb.iter()).any(|(a, b)| a.cells != b.cells) {
            let i = ra.iter().zip(rb.iter()).position(|(a, b)| a.cells != b.cells).unwrap_or(0);
            return Verdict::Fail(
                Failure::new("C15:rename-changes-colouring", format!("renaming `{}` to `{}` (same language) changes hunk row {}: `{}`", name1, name2, i, ra.get(i).map(|r| r.text()).unwrap_or_default()))
                    .with(detail(json!({"renamed_to": name2, "a": ra.get(i).map(|r| format!("{:?}", r.cells.iter().map(|c| (c.text.clone(), c.st.fg)).collect::<Vec<_>>())), "b": rb.get(i).map(|r| format!("{:?}", r.cells.iter().map(|c| (c.text.clone(), c.st.fg)).collect::<Vec<_>>()))}))),
            );
        }
        // the same holds for a file that is added or deleted (one side is /dev/null) and for plain
        // `diff -u` output: the language is that of the name that exists
        {
            let kind = *t.pick(&[SK::Added, SK::Deleted, SK::PlainDiffU]);
            let only = match kind {
                SK::Added => Some(LK::Plus),
                SK::Deleted => Some(LK::Minus),
                _ => None,
            };
            let hs: Vec<Hunk> = match only {
                Some(k) => {
                    let lines: Vec<HLine> = hunks[0].lines.iter().map(|l| HLine { kind: k, prefix: if k == LK::Plus { "+".into() } else { "-".into() }, text: l.text.clone(), no_newline_after: false }).collect();
                    vec![finish_hunk(if k == LK::Plus { 0 } else { 1 }, if k == LK::Plus { 1 } else { 0 }, lines, String::new(), false, 1)]
                }
                None => hunks.clone(),
            };
            let (oa, ob) = match (run(&cfg1, &bytes_of(&section_of(kind, &name1, hs.clone())), ctx), run(&cfg1, &bytes_of(&section_of(kind, &name2, hs.clone())), ctx)) {
                (Ok(a), Ok(b)) => (a, b),
                (Err(f), _) | (_, Err(f)) => return Verdict::Fail(f),
            };
            let (xa, xb) = (content_rows(&oa), content_rows(&ob));
            if xa.len() != xb.len() || xa.iter().zip(xb.iter()).any(|(a, b)| a.cells != b.cells) {
                let i = xa.iter().zip(xb.iter()).position(|(a, b)| a.cells != b.cells).unwrap_or(0);
                return Verdict::Fail(
                    Failure::new("C15:rename-changes-colouring", format!("{} file: naming it `{}` instead of `{}` (same language) changes hunk row {}: `{}`", kind.name(), name2, name1, i, xa.get(i).map(|r| r.text()).unwrap_or_default()))
                        .with(json!({"case": exec::case_json(&cfg1, &bytes_of(&section_of(kind, &name1, hs.clone()))), "renamed_to": name2})),
                );
            }
            // and it is that of the name, not of the event: the lines of an added or deleted file
            // are coloured like the same lines added to / removed from a modified file of that name
            if only.is_some() {
                let om = match run(&cfg1, &bytes_of(&section_of(SK::Modified, &name1, hs.clone())), ctx) {
                    Ok(o) => o,
                    Err(f) => return Verdict::Fail(f),
                };
                let xm = content_rows(&om);
                if xa.len() != xm.len() || xa.iter().zip(xm.iter()).any(|(a, b)| a.cells != b.cells) {
                    let i = xa.iter().zip(xm.iter()).position(|(a, b)| a.cells != b.cells).unwrap_or(0);
                    return Verdict::Fail(
                        Failure::new("C15:event-changes-colouring", format!("{} file `{}`: hunk row {} is coloured differently from the same line of a modified file of that name: `{}`", kind.name(), name1, i, xa.get(i).map(|r| r.text()).unwrap_or_default()))
                            .with(json!({"case": exec::case_json(&cfg1, &bytes_of(&section_of(kind, &name1, hs.clone()))),
                                "as_event": xa.get(i).map(|r| format!("{:?}", r.cells.iter().map(|c| (c.text.clone(), c.st.fg)).collect::<Vec<_>>())),
                                "as_modified": xm.get(i).map(|r| format!("{:?}", r.cells.iter().map(|c| (c.text.clone(), c.st.fg)).collect::<Vec<_>>()))})),
                    );
                }
            }
            ctx.class(&format!("rename-relation:{}", kind.name()));
            // what follows does not change how this file's lines are coloured: the same section
            // followed by a section of another language
            let (lang_b, pool_b) = code::lang(t);
            if lang_b != lang {
                let (nb, _) = code::two_names(t, lang_b);
                let hb = gen_hunk(t, pool_b, 3, 3);
                let follow_kind = if kind == SK::PlainDiffU { SK::PlainDiffU } else { SK::Modified };
                let mut both = bytes_of(&section_of(kind, &name1, hs.clone()));
                both.extend_from_slice(&bytes_of(&section_of(follow_kind, &nb, vec![hb])));
                let ob2 = match run(&cfg1, &both, ctx) {
                    Ok(o) => o,
                    Err(f) => return Verdict::Fail(f),
                };
                let xc = content_rows(&ob2);
                if xc.len() < xa.len() || xa.iter().zip(xc.iter()).any(|(a, b)| a.cells != b.cells) {
                    let i = xa.iter().zip(xc.iter()).position(|(a, b)| a.cells != b.cells).unwrap_or(0);
                    return Verdict::Fail(
                        Failure::new("C15:next-section-changes-colouring", format!("`{}` ({}): hunk row {} `{}` is coloured differently when a section for `{}` follows", name1, kind.name(), i, xa.get(i).map(|r| r.text()).unwrap_or_default(), nb))
                            .with(json!({"case": exec::case_json(&cfg1, &both)})),
                    );
                }
                ctx.class("followed-by-other-language");
            }
        }
        // what precedes does not change how a file's lines are coloured either: a plain-text file
        // (or a name without language: the default language is plain text) holding the same kind of
        // lines, alone and after this section
        if t.chance(1, 3) {
            let txt = t.ps(&["notes.txt", "docs/TODO.txt", "data.zzzunknown", "AUTHORS"]).to_string();
            let ht = gen_hunk(t, pool, 3, 3);
            let alone = match run(&cfg1, &bytes_of(&section(&txt, vec![ht.clone()])), ctx) {
                Ok(o) => o,
                Err(f) => return Verdict::Fail(f),
            };
            let mut both = bytes_of(&section(&name1, hunks.clone()));
            both.extend_from_slice(&bytes_of(&section(&txt, vec![ht])));
            let after = match run(&cfg1, &both, ctx) {
                Ok(o) => o,
                Err(f) => return Verdict::Fail(f),
            };
            let (xa, xb) = (content_rows(&alone), content_rows(&after));
            let tail = if xb.len() >= xa.len() { &xb[xb.len() - xa.len()..] } else { &xb[..] };
            if xb.len() < xa.len() || xa.iter().zip(tail.iter()).any(|(a, b)| a.cells != b.cells) {
                let i = xa.iter().zip(tail.iter()).position(|(a, b)| a.cells != b.cells).unwrap_or(0);
                return Verdict::Fail(
                    Failure::new("C15:previous-section-changes-colouring", format!("`{}`: hunk row {} `{}` is coloured differently when the section of `{}` precedes it than on its own", txt, i, xa.get(i).map(|r| r.text()).unwrap_or_default(), name1))
                        .with(json!({"case": exec::case_json(&cfg1, &both)})),
                );
            }
            ctx.class("plain-text-file-after-other-language");
        }
        // a name without language falls back to the configured default language
        if t.chance(1, 3) && lang != "Makefile" {
            let unknown = format!("{}.zzzunknown", name1.rsplit_once('.').map(|x| x.0).unwrap_or("f"));
            let sec3 = section(&unknown, hunks.clone());
            let mut cfg3 = cfg1.clone();
            cfg3.set("default-language", lang);
            let out_def = match run(&cfg3, &bytes_of(&sec3), ctx) {
                Ok(o) => o,
                Err(f) => return Verdict::Fail(f),
            };
            let rc = content_rows(&out_def);
            if ra.len() != rc.len() || ra.iter().zip(rc.iter()).any(|(a, b)| a.cells != b.cells) {
                return Verdict::Fail(Failure::new("C15:default-language", format!("`{}` with --default-language={} is not coloured like `{}`", unknown, lang, name1)).with(detail(json!(null))));
            }
            ctx.class("default-language-fallback");
        }
        // each hunk is coloured as if highlighting started there
        if hunks.len() > 1 {
            let mut concat: Vec<Row> = Vec::new();
            for h in &hunks {
                let o = match run(&cfg1, &bytes_of(&section(&name1, vec![h.clone()])), ctx) {
                    Ok(o) => o,
                    Err(f) => return Verdict::Fail(f),
                };
                concat.extend(content_rows(&o));
            }
            if ra.len() != concat.len() || ra.iter().zip(concat.iter()).any(|(a, b)| a.cells != b.cells) {
                let i = ra.iter().zip(concat.iter()).position(|(a, b)| a.cells != b.cells).unwrap_or(0);
                return Verdict::Fail(Failure::new("C15:highlighter-state-leaks", format!("hunk row {} `{}` is coloured differently when its hunk is rendered alone", i, ra.get(i).map(|r| r.text()).unwrap_or_default())).with(detail(json!(null))));
            }
        }
        if fg_differs {
            let mut h = fnv(&input);
            h = fnv_add(h, &cfg.fingerprint().to_le_bytes());
            h = fnv_add(h, format!("{}|{}", t1, t2).as_bytes());
            ctx.nontrivial(h);
            if ctx.want_sample() {
                ctx.sample(json!({"themes": [t1, t2], "file": name1, "renamed": name2, "argv": cfg1.base_args().iter().filter(|a| a.contains("syntax") || !a.contains("-style=")).collect::<Vec<_>>(), "input": exec::printable(&input[..input.len().min(800)])}));
            }
        }
        if ctx.want_xcheck() {
            ctx.xchecks.push(json!({"argv": cfg1.args(None), "env": exec::env_from_spec(&cfg1.env), "cwd": cfg1.env.current_dir,
                "identity": ctx.identity, "input_hex": exec::hex(&input), "out_hash": format!("{:016x}", fnv(&out1))}));
        }
        Verdict::Pass
    }
    fn supervisor_phase(&self, sup: &mut Sup) {
        crate::xcheck::binary_crosscheck(sup, false);
    }
}
