//! C10 — file sections render independently of their neighbours; output is deterministic.
use serde_json::json;

use crate::exec;
use crate::gen::config::{gen_structural, gen_tagged_styles, Cfg, CfgOpts};
use crate::gen::diff::{gen_section_of_kind, render_section, lines_to_bytes, GenOpts, Section, LK, SK};
use crate::runner::{Ctx, Failure, Prop, Sup, Tier, Verdict};
use crate::tape::{fnv, fnv_add, Tape};

pub struct C10;

pub const KINDS: &[SK] = &[
    SK::Modified,
    SK::Added,
    SK::Deleted,
    SK::RenamedPure,
    SK::RenamedChanged,
    SK::CopiedPure,
    SK::CopiedChanged,
    SK::ModeOnly,
    SK::ModeChanged,
    SK::BinaryModified,
    SK::BinaryAdded,
    SK::BinaryDeleted,
    SK::RenamedBinary,
    SK::CopiedBinary,
    SK::SubmoduleShort,
    SK::EmptyNew,
    SK::EmptyDeleted,
];

pub fn gen_cfg(t: &mut Tape) -> Cfg {
    let mut c = Cfg::new();
    let o = CfgOpts {
        side_by_side: None,
        allow_presets: true,
        allow_hyperlinks: true,
        allow_navigate: true,
        allow_omit: true,
        allow_raw_headers: true,
        allow_color_only: true,
        min_width: 20,
        max_width: 200,
        wide_only: false,
    };
    gen_structural(t, &mut c, &o);
    if t.coin() {
        gen_tagged_styles(t, &mut c, &o);
    }
    if t.chance(1, 8) {
        c.flag("color-only");
    }
    if t.chance(1, 10) {
        c.flag("raw");
    }
    if t.chance(1, 8) {
        c.set("hunk-header-style", *t.pick(&["raw", "omit", "file line-number syntax"]));
    }
    if t.chance(1, 10) {
        c.set("file-style", *t.pick(&["raw", "omit", "blue box"]));
    }
    // feature flags in a gitconfig ([delta] section): exercises the feature-gathering code
    if t.chance(1, 6) {
        let mut g = String::from("[delta]\n");
        let n = t.range(1, 3);
        for _ in 0..n {
            let f = *t.pick(&["diff-so-fancy", "diff-highlight", "line-numbers", "navigate", "hyperlinks", "raw"]);
            if f == "hyperlinks" {
                c.env.current_dir = Some("/work/repo".to_string());
            }
            g.push_str(&format!("    {} = true\n", f));
        }
        c.gitconfig = Some(g);
    }
    c
}

pub fn section_bytes(s: &Section) -> Vec<u8> {
    let mut out = Vec::new();
    render_section(s, 0, &mut out);
    lines_to_bytes(&out, true)
}

fn ends_in_changed(s: &Section) -> bool {
    s.hunks.last().and_then(|h| h.lines.last()).map(|l| l.kind != LK::Ctx).unwrap_or(false)
}

impl Prop for C10 {
    fn id(&self) -> &'static str {
        "C10"
    }
    fn cases(&self, tier: Tier) -> usize {
        match tier {
            Tier::Quick => 10_000,
            Tier::Thorough => 200_000,
        }
    }
    fn tape_len(&self, _t: Tier) -> usize {
        3000
    }
    fn rule(&self) -> String {
        "cases = sequence of 2-6 complete git file sections drawn from a pool (every kind: modified, added, deleted, renamed/copied with and without changes, mode-only, mode+changes, binary x3, renamed/copied binary, submodule, empty new/deleted, combined with and without merge-conflict regions; repetitions allowed; each ending in any kind of line) x option set (unified / side-by-side, line numbers, hyperlinks, presets, color-only, raw, omit/raw header styles, feature flags in gitconfig). Oracle: delta(S1..Sn) == delta(S1)..delta(Sn) byte for byte, and three in-process runs of the same case give identical bytes (binary runs in the supervisor phase). Non-trivial = >=3 sections of >=3 distinct kinds with a hunk-less section directly after a hunk ending in changed lines, or a rename/mode section adjacent to a modification; distinct by hash of (input, argv).".to_string()
    }
    fn assumptions(&self) -> Vec<String> {
        vec![
            "only git sections (plain-diff concatenations are ambiguous by format)".to_string(),
            "in-process determinism compares runs with fresh hash states within one process; cross-process determinism is checked on the real binary in the supervisor phase".to_string(),
        ]
    }
    fn needs_binary(&self) -> bool {
        true
    }
    fn check(&self, t: &mut Tape, ctx: &mut Ctx) -> Verdict {
        let mut o = GenOpts::default_full();
        o.max_hunks = 2;
        o.max_lines = 8;
        o.allow_conflict = true;
        let cfg = gen_cfg(t);
        let pool_n = t.range(2, 5);
        let mut pool: Vec<Section> = Vec::new();
        // a stream of plain `diff -u` output (concatenated runs of diff, a hand-made patch file):
        // there the "---" line is all that separates two file sections
        let plain_stream = t.chance(1, 6);
        ctx.class_if(plain_stream, "plain-diff-stream");
        if plain_stream {
            let case = crate::gen::diff::gen_plain_case(t, &o);
            for it in case.items {
                if let crate::gen::diff::Item::Section(mut s) = it {
                    s.old_mode = String::new(); // (no `diff -ru` line: the bare form)
                    pool.push(s);
                }
            }
        }
        for _ in 0..(if plain_stream { 0 } else { pool_n }) {
            // (combined diffs, some with merge-conflict regions in 2-way or diff3 style, are git
            // file sections too)
            let k = if t.chance(1, 6) { SK::Combined } else { *t.pick(KINDS) };
            let mut sec = gen_section_of_kind(t, &o, k);
            if k == SK::Combined {
                // (hunk lines that look like conflict markers would open a conflict region that
                // never ends: not a complete section)
                for h in sec.hunks.iter_mut() {
                    for l in h.lines.iter_mut() {
                        if ["<<<<<<<", "=======", ">>>>>>>", "|||||||"].iter().any(|m| l.text.starts_with(m)) {
                            l.text = format!("x {}", l.text);
                        }
                    }
                }
            }
            // `git diff --no-index dir1 dir2`: the two names on the "diff --git" line differ
            if sec.kind == SK::BinaryModified && t.chance(1, 3) {
                sec.new_path = format!("new/{}", sec.old_path);
                sec.old_path = format!("old/{}", sec.old_path);
            }
            pool.push(sec);
        }
        let n = t.range(2, 6);
        let mut seq: Vec<&Section> = Vec::new();
        for _ in 0..n {
            seq.push(&pool[t.below(pool.len())]);
        }
        let mut cfg = cfg;
        for s in &seq {
            let mut ls = Vec::new();
            render_section(s, 0, &mut ls);
            crate::gen::config::keep_headers_intact(&mut cfg, &ls);
        }
        let cfg = cfg;
        let parts: Vec<Vec<u8>> = seq.iter().map(|s| section_bytes(s)).collect();
        let whole: Vec<u8> = parts.concat();
        for w in seq.windows(2) {
            ctx.class(&format!("2gram:{}>{}", w[0].kind.name(), w[1].kind.name()));
        }
        ctx.class_if(cfg.has("side-by-side"), "side-by-side");
        ctx.class_if(cfg.has("color-only"), "color-only");
        ctx.class_if(cfg.gitconfig.is_some(), "gitconfig-feature-flags");
        let traits = || crate::props::c03::failure_traits(&cfg, &whole);
        let sess = match exec::session(&cfg, ctx) {
            Ok(s) => s,
            Err(f) => return Verdict::Fail(f.traits(traits()).with(json!({"case": exec::case_json(&cfg, &whole)}))),
        };
        let out_whole = match exec::run(&sess, &whole) {
            Ok(o) => o,
            Err(f) => return Verdict::Fail(f.traits(traits()).with(json!({"case": exec::case_json(&cfg, &whole)}))),
        };
        let mut concat: Vec<u8> = Vec::new();
        for p in &parts {
            match exec::run(&sess, p) {
                Ok(o) => concat.extend_from_slice(&o),
                Err(f) => return Verdict::Fail(f.traits(traits()).with(json!({"case": exec::case_json(&cfg, p)}))),
            }
        }
        if out_whole != concat {
            // locate the first differing line for the message
            let a: Vec<&[u8]> = out_whole.split(|b| *b == b'\n').collect();
            let b: Vec<&[u8]> = concat.split(|b| *b == b'\n').collect();
            let i = a.iter().zip(b.iter()).position(|(x, y)| x != y).unwrap_or(a.len().min(b.len()));
            let kinds: Vec<&str> = seq.iter().map(|s| s.kind.name()).collect();
            return Verdict::Fail(
                Failure::new(
                    "C10:concat",
                    format!(
                        "output for the sequence {:?} differs from the concatenation of the per-section outputs at output line {}: whole `{}` vs parts `{}`",
                        kinds,
                        i,
                        exec::printable(a.get(i).copied().unwrap_or(b"<end>")),
                        exec::printable(b.get(i).copied().unwrap_or(b"<end>"))
                    ),
                )
                .with(json!({"case": exec::case_json(&cfg, &whole), "kinds": kinds,
                    "whole_output": exec::printable(&out_whole[..out_whole.len().min(5000)]), "concat_output": exec::printable(&concat[..concat.len().min(5000)])})),
            );
        }
        // determinism: fresh sessions (fresh hash states), same bytes
        for rep in 0..2 {
            let s2 = match exec::session(&cfg, ctx) {
                Ok(s) => s,
                Err(f) => return Verdict::Fail(f.with(json!({"case": exec::case_json(&cfg, &whole)}))),
            };
            let o2 = match exec::run(&s2, &whole) {
                Ok(o) => o,
                Err(f) => return Verdict::Fail(f.traits(traits()).with(json!({"case": exec::case_json(&cfg, &whole)}))),
            };
            if o2 != out_whole {
                return Verdict::Fail(
                    Failure::new("C10:nondeterministic-render", format!("run {} of the same input/options/environment produced different bytes", rep + 2))
                        .with(json!({"case": exec::case_json(&cfg, &whole), "first": exec::printable(&out_whole[..out_whole.len().min(3000)]), "other": exec::printable(&o2[..o2.len().min(3000)])})),
                );
            }
            let (c1, c2) = (sess.show_config(), s2.show_config());
            if c1 != c2 {
                let l = c1.lines().zip(c2.lines()).find(|(a, b)| a != b).map(|(a, b)| format!("`{}` vs `{}`", a.trim(), b.trim())).unwrap_or_default();
                return Verdict::Fail(
                    Failure::new("C10:nondeterministic-show-config", format!("--show-config differs between two constructions of the same configuration: {}", exec::printable(l.as_bytes())))
                        .with(json!({"case": exec::case_json(&cfg, b"")})),
                );
            }
        }
        let kinds: std::collections::BTreeSet<&str> = seq.iter().map(|s| s.kind.name()).collect();
        let adj = seq.windows(2).any(|w| (!w[1].kind.has_hunks() && ends_in_changed(w[0])) || (matches!(w[0].kind, SK::RenamedPure | SK::RenamedChanged | SK::ModeOnly | SK::ModeChanged) && w[1].kind == SK::Modified) || (matches!(w[1].kind, SK::RenamedPure | SK::RenamedChanged | SK::ModeOnly | SK::ModeChanged) && w[0].kind == SK::Modified));
        if seq.len() >= 3 && kinds.len() >= 3 && adj {
            let mut h = fnv(&whole);
            h = fnv_add(h, &cfg.fingerprint().to_le_bytes());
            ctx.nontrivial(h);
            if ctx.want_sample() {
                ctx.sample(json!({"kinds": seq.iter().map(|s| s.kind.name()).collect::<Vec<_>>(), "argv": cfg.base_args(), "gitconfig": cfg.gitconfig, "input": exec::printable(&whole[..whole.len().min(1500)])}));
            }
        }
        if ctx.want_xcheck() && cfg.gitconfig.is_none() {
            ctx.xchecks.push(json!({"argv": cfg.args(None), "env": exec::env_from_spec(&cfg.env), "cwd": cfg.env.current_dir,
                "identity": ctx.identity, "input_hex": exec::hex(&whole), "out_hash": format!("{:016x}", fnv(&out_whole))}));
        }
        Verdict::Pass
    }
    fn supervisor_phase(&self, sup: &mut Sup) {
        crate::xcheck::binary_crosscheck(sup, false);
        crate::xcheck::binary_determinism(sup);
    }
}
