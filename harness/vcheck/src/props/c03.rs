//! C03 — delta never crashes or hangs, whatever bytes and options it is given.
use serde_json::json;

use crate::exec;
use crate::gen::config::gen_edge_cfg;
use crate::gen::diff::{gen_case, gen_plain_case, GenOpts};
use crate::gen::{mutate, other};
use crate::runner::{Ctx, Failure, Prop, Sup, Tier, Verdict};
use crate::tape::{fnv, fnv_add, Tape};

pub struct C03;

pub fn identities() -> Vec<Vec<String>> {
    let v = |a: &[&str]| a.iter().map(|s| s.to_string()).collect::<Vec<_>>();
    vec![
        v(&["git", "diff"]),
        v(&["git", "grep", "-n", "x"]),
        v(&["git", "diff"]),
        v(&["rg", "x"]),
        v(&["git", "diff"]),
        v(&["git", "blame", "src/main.rs"]),
        v(&["git", "diff"]),
        v(&["git", "show", "HEAD:src/main.rs"]),
        v(&["git", "diff", "--word-diff"]),
        v(&["git", "log", "-p", "--relative"]),
    ]
}

const MARKERS: &[&str] = &["diff ", "@@", "commit ", "--- ", "+++ ", "Binary files", "rename ", "Submodule", "<<<<<<<", "{\"type\"", "old mode", "index "];

pub fn failure_traits(cfg: &crate::gen::config::Cfg, input: &[u8]) -> Vec<String> {
    let mut v = Vec::new();
    // (judged on the text with escape sequences removed, as delta parses it)
    let s = crate::term::visible_text(input);
    if crate::gen::text::has_composite_cluster(&s) {
        v.push("composite-cluster".to_string());
    }
    if crate::gen::text::has_multichar_cluster(&s) {
        v.push("multi-char-cluster".to_string());
    }
    if s.chars().any(|c| !c.is_control() && unicode_width::UnicodeWidthChar::width(c) == Some(0)) {
        v.push("zero-width-char".to_string());
    }
    if cfg.has("side-by-side") {
        v.push("side-by-side".to_string());
    }
    if cfg.has("color-only") {
        v.push("color-only".to_string());
    }
    {
        // a number written with leading zeros
        let b = s.as_bytes();
        if (0..b.len().saturating_sub(1)).any(|i| b[i] == b'0' && b[i + 1].is_ascii_digit() && (i == 0 || !b[i - 1].is_ascii_digit())) {
            v.push("leading-zero-number".to_string());
        }
    }
    // is the stream classified as plain `diff -u` output (first deciding line)?
    for l in s.lines() {
        if l.starts_with("commit ") || l.starts_with("diff --git ") || l.starts_with("diff --cc ") || l.starts_with("diff --combined ") {
            break;
        }
        if l.starts_with("diff -u") || l.starts_with("diff -ru") || l.starts_with("diff -r -u") || l.starts_with("diff -U") || l.starts_with("--- ") || l.starts_with("Only in ") {
            v.push("diffu-source".to_string());
            break;
        }
    }
    let raw = String::from_utf8_lossy(input);
    if s.lines().chain(raw.lines()).any(|l| match (l.find('\t'), l.rfind(|c| c == ':' || c == '-' || c == '=')) {
        (Some(t), Some(sep)) => t < sep,
        _ => false,
    }) {
        v.push("tab-before-separator".to_string());
    }
    if cfg.has("commit-regex") {
        v.push("commit-regex-option".to_string());
    }
    if input.contains(&0x1b) {
        v.push("input-escape".to_string());
    }
    if input.iter().any(|b| *b < 0x20 && !matches!(*b, b'\n' | b'\t' | b'\r' | 0x1b)) {
        v.push("control-bytes".to_string());
    }
    if std::str::from_utf8(input).is_err() {
        v.push("invalid-utf8".to_string());
    }
    if cfg.has("max-syntax-highlighting-length") {
        v.push("max-syntax-length-option".to_string());
    }
    v
}

pub fn gen_input(t: &mut Tape, identity: &[String]) -> (Vec<u8>, &'static str, u32) {
    let is_grep = identity.get(1).map(|s| s == "grep").unwrap_or(false) || identity[0] == "rg";
    let is_blame = identity.get(1).map(|s| s == "blame").unwrap_or(false);
    let (gw, bw) = if is_grep { (8, 1) } else if is_blame { (1, 8) } else { (1, 1) };
    let kind = t.weighted(&[10, 2, gw, gw / 2 + 1, bw, 2]);
    let (mut bytes, name): (Vec<u8>, &'static str) = match kind {
        0 => {
            let mut o = GenOpts::default_full();
            o.max_lines = 10;
            o.text.allow_composite = t.chance(1, 8);
            o.allow_conflict = true; // (merge-conflict regions in combined diffs)
            (gen_case(t, &o).bytes(), "git-diff")
        }
        1 => (gen_plain_case(t, &GenOpts::default_full()).bytes(), "plain-diff"),
        2 => (other::grep_stream(t), "grep"),
        3 => (other::rg_json_stream(t), "rg-json"),
        4 => (other::blame_stream(t), "blame"),
        _ => (mutate::arbitrary_bytes(t), "arbitrary"),
    };
    let nm = if name == "arbitrary" { 0 } else { t.weighted(&[3, 4, 3, 2, 1, 1, 1]) };
    for _ in 0..nm {
        let (b, _) = mutate::mutate(t, bytes);
        bytes = b;
    }
    (bytes, name, nm as u32)
}

impl Prop for C03 {
    fn hang_is_violation(&self) -> bool {
        true
    }
    fn id(&self) -> &'static str {
        "C03"
    }
    fn identities(&self) -> Vec<Vec<String>> {
        identities()
    }
    fn cases(&self, tier: Tier) -> usize {
        match tier {
            Tier::Quick => 32_000,
            Tier::Thorough => 800_000,
        }
    }
    fn tape_len(&self, _t: Tier) -> usize {
        2500
    }
    fn rule(&self) -> String {
        "cases = (input stream from the diff/grep/rg-json/blame grammars passed through 0-6 structured mutators, or arbitrary bytes) x (option set of the edge family: every presentation mode crossed with edge values, valid by construction) x calling-process identity (one per worker process). Oracle: no panic, no process exit, no I/O error on an in-memory writer; the worker process survives. Non-trivial = the input contains a construct-opening marker AND (it was mutated OR the option set contains an edge value); distinct by hash of (input, argv).".to_string()
    }
    fn assumptions(&self) -> Vec<String> {
        vec![
            "in-process harness (dut = /repo/src built as a library in non-test mode, overflow checks on) behaves like the binary; cross-checked by the binary phase".to_string(),
            "option values are generated valid by construction in-process; rejected option sets (exit 2 + message) are exercised on the binary only".to_string(),
            "hang detection: per-case watchdog in the supervisor; super-linear cost beyond the generated sizes (lines <= 20 kB, sub-hunks <= 16 lines) is not explored".to_string(),
        ]
    }
    fn needs_binary(&self) -> bool {
        true
    }
    fn check(&self, t: &mut Tape, ctx: &mut Ctx) -> Verdict {
        let (cfg, edge) = gen_edge_cfg(t);
        let identity = ctx.identity.clone();
        let (input, kind, nmut) = gen_input(t, &identity);
        ctx.class(kind);
        ctx.class_if(nmut > 0, "mutated");
        ctx.class_if(edge, "edge-option");
        ctx.class_if(cfg.has("side-by-side"), "side-by-side");
        ctx.class_if(cfg.has("line-numbers"), "line-numbers");
        ctx.class_if(cfg.has("color-only"), "color-only");
        ctx.class_if(std::str::from_utf8(&input).is_err(), "invalid-utf8");
        let engages = {
            let s = String::from_utf8_lossy(&input);
            s.lines().any(|l| MARKERS.iter().any(|m| l.starts_with(m))) || kind == "grep" || kind == "blame"
        };
        let t0 = std::time::Instant::now();
        let res = exec::run_cfg(&cfg, ctx, &input);
        if std::env::var("VCHECK_SLOW").is_ok() && t0.elapsed().as_millis() > 50 {
            eprintln!("SLOW {:?} kind={} len={} maxline={} argv={:?}", t0.elapsed(), kind, input.len(), input.split(|b| *b == b'\n').map(|l| l.len()).max().unwrap_or(0), cfg.base_args().iter().filter(|a| !a.contains("style")).collect::<Vec<_>>());
        }
        match res {
            Ok(out) => {
                if engages && (nmut > 0 || edge) {
                    let mut h = fnv(&input);
                    h = fnv_add(h, &cfg.fingerprint().to_le_bytes());
                    ctx.nontrivial(h);
                    if ctx.want_sample() {
                        ctx.sample(json!({"kind": kind, "mutators": nmut, "identity": identity, "argv": cfg.base_args(),
                            "input": exec::printable(&input[..input.len().min(1200)]), "output_bytes": out.len()}));
                    }
                }
                if ctx.want_xcheck() && cfg.gitconfig.is_none() {
                    ctx.xchecks.push(json!({"argv": cfg.args(None), "env": exec::env_from_spec(&cfg.env), "cwd": cfg.env.current_dir,
                        "identity": identity, "input_hex": exec::hex(&input), "out_hash": format!("{:016x}", fnv(&out))}));
                }
                Verdict::Pass
            }
            Err(mut f) => {
                f.detail = json!({"kind": kind, "mutators": nmut, "identity": identity, "case": exec::case_json(&cfg, &input)});
                f.traits = failure_traits(&cfg, &input);
                Verdict::Fail(f)
            }
        }
    }
    fn describe(&self, t: &mut Tape, ctx: &mut Ctx) -> serde_json::Value {
        let (cfg, _edge) = gen_edge_cfg(t);
        let identity = ctx.identity.clone();
        let (input, kind, nmut) = gen_input(t, &identity);
        json!({"kind": kind, "mutators": nmut, "identity": identity, "case": exec::case_json(&cfg, &input), "traits": failure_traits(&cfg, &input)})
    }
    fn supervisor_phase(&self, sup: &mut Sup) {
        crate::xcheck::binary_crosscheck(sup, true);
    }
    fn fuzz_decoders(&self) -> Vec<&'static str> {
        vec!["C03", "C03R"]
    }
    fn fuzz_default_secs(&self) -> u64 {
        420
    }
}

#[allow(dead_code)]
fn unused(_: Failure) {}

// ---------------------------------------------------------------------------------------------
// C03R — raw decoder for the coverage-guided tier: the first RAW_HEADER tape values choose the
// option set (same edge family as C03), everything after them is delta's standard input, byte
// for byte.  libFuzzer's byte-level mutations then act on the input text itself, which the
// grammar-based generator above cannot reach (hostile bytes between valid constructs).

pub struct C03R;
pub const RAW_HEADER: usize = 96;

impl C03R {
    fn decode(t: &mut Tape) -> (crate::gen::config::Cfg, bool, Vec<u8>) {
        let mut head = t.fork(RAW_HEADER);
        let (cfg, edge) = gen_edge_cfg(&mut head);
        let mut input = t.rest_bytes();
        // `Tape::from_bytes` pads the last word with zeros: drop trailing NULs
        while input.last() == Some(&0) {
            input.pop();
        }
        (cfg, edge, input)
    }
}

impl Prop for C03R {
    fn id(&self) -> &'static str {
        "C03R"
    }
    fn identities(&self) -> Vec<Vec<String>> {
        identities()
    }
    fn cases(&self, _tier: Tier) -> usize {
        0
    }
    fn tape_len(&self, _t: Tier) -> usize {
        RAW_HEADER + 2048
    }
    fn rule(&self) -> String {
        "raw decoder of C03 (coverage-guided tier only)".to_string()
    }
    fn assumptions(&self) -> Vec<String> {
        Vec::new()
    }
    fn check(&self, t: &mut Tape, ctx: &mut Ctx) -> Verdict {
        let (cfg, edge, input) = C03R::decode(t);
        let identity = ctx.identity.clone();
        ctx.class("raw-bytes");
        ctx.class_if(edge, "edge-option");
        ctx.class_if(cfg.has("side-by-side"), "side-by-side");
        ctx.class_if(std::str::from_utf8(&input).is_err(), "invalid-utf8");
        let engages = {
            let s = String::from_utf8_lossy(&input);
            s.lines().any(|l| MARKERS.iter().any(|m| l.starts_with(m)))
        };
        match exec::run_cfg(&cfg, ctx, &input) {
            Ok(out) => {
                if engages {
                    let mut h = fnv(&input);
                    h = fnv_add(h, &cfg.fingerprint().to_le_bytes());
                    ctx.nontrivial(h);
                    if ctx.want_sample() {
                        ctx.sample(json!({"kind": "raw-bytes (libFuzzer)", "identity": identity, "argv": cfg.base_args(),
                            "input": exec::printable(&input[..input.len().min(1200)]), "output_bytes": out.len()}));
                    }
                }
                Verdict::Pass
            }
            Err(mut f) => {
                f.detail = json!({"kind": "raw-bytes", "identity": identity, "case": exec::case_json(&cfg, &input)});
                f.traits = failure_traits(&cfg, &input);
                Verdict::Fail(f)
            }
        }
    }
    fn describe(&self, t: &mut Tape, ctx: &mut Ctx) -> serde_json::Value {
        let (cfg, _edge, input) = C03R::decode(t);
        json!({"kind": "raw-bytes", "identity": ctx.identity, "case": exec::case_json(&cfg, &input), "traits": failure_traits(&cfg, &input)})
    }
    fn fuzz_seeds(&self, seed: u64) -> Vec<Vec<u8>> {
        raw_seeds(seed, false)
    }
    fn fuzz_decoders(&self) -> Vec<&'static str> {
        Vec::new()
    }
}

/// golden inputs for the raw decoders: delta's own example files and generated grep / rg --json /
/// blame streams, each under a few option-set headers
pub fn raw_seeds(seed: u64, strip_escapes: bool) -> Vec<Vec<u8>> {
    // golden inputs: delta's own example files and generated grep / rg --json / blame streams,
    // each under a few option sets
    let mut out = Vec::new();
    let mut bodies: Vec<Vec<u8>> = Vec::new();
    let ex = std::path::Path::new(env!("DUT_SRC")).join("../etc/examples");
    if let Ok(rd) = std::fs::read_dir(&ex) {
        let mut files: Vec<_> = rd.flatten().map(|e| e.path()).collect();
        files.sort();
        for p in files {
            if let Ok(b) = std::fs::read(&p) {
                if b.len() <= 6000 {
                    bodies.push(b);
                } else {
                    bodies.push(b[..6000].to_vec());
                }
            }
        }
    }
    for k in 0..6u32 {
        let mk = |f: fn(&mut Tape) -> Vec<u8>| {
            let mut t = Tape::new((0..400u32).map(|i| (fnv(&[k as u8, (i & 255) as u8, (i >> 8) as u8, 7]) >> 16) as u32).collect());
            f(&mut t)
        };
        bodies.push(mk(other::grep_stream));
        bodies.push(mk(other::rg_json_stream));
        bodies.push(mk(other::blame_stream));
    }
    if strip_escapes {
        // decoders whose domain excludes escape sequences: keep the visible text only
        for b in bodies.iter_mut() {
            *b = crate::term::visible_text(b).into_bytes();
        }
    }
    for (i, b) in bodies.iter().enumerate() {
        for k in 0..3u64 {
            let mut v: Vec<u8> = Vec::with_capacity(RAW_HEADER * 4 + b.len());
            for j in 0..RAW_HEADER as u64 {
                let h = if k == 0 { 0 } else { (fnv(&[(seed & 255) as u8, i as u8, k as u8, j as u8, 3]) >> 20) as u32 };
                v.extend_from_slice(&h.to_le_bytes());
            }
            v.extend_from_slice(b);
            out.push(v);
        }
    }
    out
}
