//! C04 — text that is not diff/blame/grep output passes through byte for byte.
use serde_json::json;

use crate::exec;
use crate::gen::config::{gen_structural, gen_tagged_styles, Cfg, CfgOpts};
use crate::gen::diff::{gen_commit, gen_section, lines_to_bytes, render_section, GenOpts, InLine, Role};
use crate::gen::text::{self, TextOpts};
use crate::runner::{Ctx, Failure, Prop, Sup, Tier, Verdict};
use crate::tape::{fnv, fnv_add, Tape};
use crate::term;

pub struct C04;

/// Markers that open a construct delta renders (derived from the handlers' gates); judged on the
/// line with escape sequences removed, as delta does.
pub fn starts_with_marker(visible: &str) -> bool {
    const M: &[&str] = &[
        "commit ", "diff ", "@@", "--- ", "+++ ", "rename from ", "rename to ", "copy from ", "copy to ", "old mode ", "new mode ",
        "deleted file mode ", "new file mode ", "Binary files ", "Only in ", "Submodule ", "{",
    ];
    if M.iter().any(|m| visible.starts_with(m)) {
        return true;
    }
    // blame-shaped prefix: optional ^, then >= 4 hex digits
    let v = visible.strip_prefix('^').unwrap_or(visible);
    v.chars().take_while(|c| c.is_ascii_hexdigit()).count() >= 4
}

const SEQS: &[&str] = &[
    "\x1b[31m", "\x1b[m", "\x1b[0m", "\x1b[1;32m", "\x1b[38;5;208m", "\x1b[48;2;10;20;30m", "\x1b[K", "\x1b[0K", "\x1b[2J", "\x1b[1A", "\x1b[?25l",
    "\x1b]8;;https://example.com/x\x1b\\", "\x1b]8;;\x1b\\", "\x1b]0;title\x07", "\x1b(B", "\x1b[7m", "\x1b[27m", "\x1b[3;4;9m",
];

struct Free {
    bytes: Vec<u8>,
    /// what must be written for it (None = only the loose truncation rule applies)
    expected: Vec<u8>,
    special: bool,
    /// the line is wider than the maximum line length: `expected` holds the visible text that
    /// must be shown (prefix + truncation mark) instead of the bytes
    trunc: bool,
}

/// A coloured line built around the maximum line length `mll`: dense SGR colouring (and OSC 8
/// links) makes it longer than `mll` in bytes.  `over` = false: its visible width stays within
/// `mll`, so it must pass unchanged ("truncation beyond the maximum line length" does not apply);
/// `over` = true: it is wider, and must be shown as its first mll-1 columns plus the mark.
fn gen_long_line(t: &mut Tape, sentinel: usize, mll: usize, over: bool) -> Free {
    const ON: &[&str] = &["\x1b[31m", "\x1b[1;32m", "\x1b[38;5;208m", "\x1b[48;2;10;20;30m", "\x1b[7m", "\x1b[3;4;9m", "\x1b[33;44m"];
    const OFF: &[&str] = &["\x1b[m", "\x1b[0m"];
    let target = if over { mll + 1 + t.below(20) } else { mll.saturating_sub(t.below(3)) };
    let mut vis = format!("⟦{}⟧", sentinel);
    let mut s: Vec<u8> = Vec::new();
    s.extend_from_slice(t.ps(ON).as_bytes());
    s.extend_from_slice(vis.as_bytes());
    s.extend_from_slice(t.ps(OFF).as_bytes());
    const WORDS: &[&str] = &["a", "bc", "def", "let", "x1", "==", "fn()", "0x1f", ";", "ok"];
    let mut width = vis.chars().count();
    while width < target {
        let room = target - width;
        if room == 1 {
            // a single column left: one more coloured character, no separating blank
            s.extend_from_slice(t.ps(ON).as_bytes());
            s.push(b'z');
            s.extend_from_slice(t.ps(OFF).as_bytes());
            vis.push('z');
            width += 1;
            break;
        }
        let mut w = t.ps(WORDS).to_string();
        if w.len() + 1 > room {
            w.truncate(room - 1);
        }
        let link = t.chance(1, 6);
        s.push(b' ');
        if link {
            s.extend_from_slice(b"\x1b]8;;https://example.com/a\x1b\\");
        }
        s.extend_from_slice(t.ps(ON).as_bytes());
        s.extend_from_slice(w.as_bytes());
        s.extend_from_slice(t.ps(OFF).as_bytes());
        if link {
            s.extend_from_slice(b"\x1b]8;;\x1b\\");
        }
        vis.push(' ');
        vis.push_str(&w);
        width += 1 + w.len();
    }
    debug_assert_eq!(width, vis.chars().count());
    if over {
        let shown: String = vis.chars().take(mll - 1).collect();
        Free { bytes: s, expected: format!("{}→", shown).into_bytes(), special: true, trunc: true }
    } else {
        Free { bytes: s.clone(), expected: s, special: true, trunc: false }
    }
}

/// Lines that start with `{` but are not records of `rg --json` output (JSON-lines logs of other
/// tools, JSON without or with another `type`, not JSON at all): free text, like any other line.
fn gen_brace_line(t: &mut Tape, sentinel: usize, mll: usize) -> Option<Free> {
    let s = format!("⟦{}⟧", sentinel);
    let line = match t.below(9) {
        0 => format!("{{\"type\":\"error\",\"message\":\"{} failed\"}}", s),
        1 => format!("{{\"level\":\"info\",\"msg\":\"{}\"}}", s),
        2 => format!("{{ {} not json", s),
        3 => format!("{{\"type\":\"match\",\"data\":\"{}\"}}", s),
        4 => format!("{{\"type\":5,\"x\":\"{}\"}}", s),
        5 => format!("{{\"type\":\"progress\",\"data\":{{\"path\":{{\"text\":\"{}\"}}}}}}", s),
        6 => format!("{{{}}}", s),
        7 => format!("{{\"type\":\"Begin\",\"data\":{{\"path\":{{\"text\":\"{}\"}}}}}}", s),
        _ => format!("{{\"data\":{{\"type\":\"begin\"}},\"id\":\"{}\"}}", s),
    };
    if mll > 0 && line.len() > mll {
        return None;
    }
    let b = line.into_bytes();
    Some(Free { bytes: b.clone(), expected: b, special: true, trunc: false })
}

fn gen_free_line(t: &mut Tape, sentinel: usize, mll: usize) -> Free {
    if t.chance(1, 14) {
        if let Some(f) = gen_brace_line(t, sentinel, mll) {
            return f;
        }
    }
    let o = TextOpts { allow_markerlike: false, allow_tabs: true, ..TextOpts::all() };
    let mut special = false;
    // visible skeleton with a unique sentinel
    let n = t.range(0, 6);
    let mut parts: Vec<String> = Vec::new();
    let lead = match t.weighted(&[4, 3, 1]) {
        0 => String::new(),
        1 => "    ".to_string(),
        _ => "\t".to_string(),
    };
    parts.push(format!("⟦{}⟧", sentinel));
    for _ in 0..n {
        parts.push(text::token(t, &o));
    }
    // metadata-like lines of git log / git status
    if t.chance(1, 6) {
        parts.insert(0, t.ps(&["Author:", "Date:  ", "Merge:", "On branch", "Changes not staged for commit:", "modified:  ", "Reflog:", "index 12..34", "similarity index 9%", "--", "++", "-", "+", "\\ No newline", "<<<<<<< x", "=======", "Merge: 1a2b3c4 5d6e7f8", "This reverts commit 0123abc4d5e6f7a8b9c0d1e2f3a4b5c6d7e8f9a0.", "(cherry picked from commit deadbeefcafe)"]).to_string());
    }
    let mut visible = format!("{}{}", lead, parts.join(" "));
    if starts_with_marker(&visible) {
        visible = format!("x {}", visible);
    }
    // ` path | 12 ++--` is a diffstat line (rewritten under --relative-paths)
    if visible.starts_with(' ') && visible.contains('|') {
        visible = visible.replace('|', "/");
    }
    // sprinkle escape sequences (balanced and unbalanced), also in front
    let mut s: Vec<u8> = Vec::new();
    let k = t.weighted(&[3, 3, 2, 1]);
    if k > 0 {
        special = true;
    }
    let chars: Vec<char> = visible.chars().collect();
    let mut cuts: Vec<usize> = (0..k).map(|_| t.below(chars.len() + 1)).collect();
    cuts.sort();
    let mut ci = 0;
    for (i, c) in chars.iter().enumerate() {
        while ci < cuts.len() && cuts[ci] == i {
            s.extend_from_slice(t.ps(SEQS).as_bytes());
            ci += 1;
        }
        let mut b = [0u8; 4];
        s.extend_from_slice(c.encode_utf8(&mut b).as_bytes());
    }
    while ci < cuts.len() {
        s.extend_from_slice(t.ps(SEQS).as_bytes());
        ci += 1;
    }
    if !visible.is_ascii() {
        special = true;
    }
    let mut expected = s.clone();
    match t.weighted(&[10, 1, 1, 1, 1, 1]) {
        0 => {}
        1 => {
            // CRLF line ending: normalised
            s.push(b'\r');
            special = true;
        }
        2 => {
            // CR followed by visible text: kept
            s.extend_from_slice(b"\rtail");
            expected = s.clone();
            special = true;
        }
        3 => {
            // CR followed only by colour codes (git does this for CRLF files): CR removed
            s.extend_from_slice(b"\r\x1b[m");
            expected.extend_from_slice(b"\x1b[m");
            special = true;
        }
        4 => {
            // invalid UTF-8: replaced
            let pos = t.below(s.len() + 1);
            let bad: &[u8] = *t.pick(&[&b"\xff"[..], b"\xc3", b"\xe2\x82", b"\xf0\x9f", b"\x80"]);
            for (q, b) in bad.iter().enumerate() {
                s.insert(pos + q, *b);
            }
            expected = String::from_utf8_lossy(&s).into_owned().into_bytes();
            special = true;
        }
        _ => {
            // NUL, at a character boundary
            let text = String::from_utf8_lossy(&s).into_owned();
            let bounds: Vec<usize> = (0..=text.len()).filter(|i| text.is_char_boundary(*i)).collect();
            let pos = bounds[t.below(bounds.len())];
            s = text.into_bytes();
            s.insert(pos, 0);
            expected = s.clone();
            special = true;
        }
    }
    // keep below the maximum line length (truncation is the third permitted change; it is
    // exercised by the dedicated long-line class below)
    if mll > 0 && (s.len() > mll || expected.len() > mll) {
        let plain = format!("⟦{}⟧ short", sentinel).into_bytes();
        return Free { bytes: plain.clone(), expected: plain, special: false, trunc: false };
    }
    Free { bytes: s, expected, special, trunc: false }
}

fn gen_cfg(t: &mut Tape) -> Cfg {
    let mut c = Cfg::new();
    let o = CfgOpts {
        side_by_side: None,
        allow_presets: true,
        allow_hyperlinks: true,
        allow_navigate: true,
        allow_omit: true,
        allow_raw_headers: true,
        allow_color_only: true,
        min_width: 10,
        max_width: 200,
        wide_only: false,
    };
    gen_structural(t, &mut c, &o);
    // --relative-paths with a prefix to work from (diffstat-shaped lines are a construct delta
    // renders in that mode; the free-line generator keeps clear of that shape)
    c.unset("relative-paths");
    if t.chance(1, 4) {
        c.flag("relative-paths");
        c.env.git_prefix = Some(t.ps(&["src/", "a/b/", "docs/x/"]).to_string());
    }
    if t.coin() {
        gen_tagged_styles(t, &mut c, &o);
    }
    if t.chance(1, 10) {
        c.flag("color-only");
    }
    if t.chance(1, 12) {
        c.flag("raw");
    }
    // commit hashes are linked only in what is written to a terminal: with a link format at hand,
    // hex words in free text (`Merge: 1a2b3c4 5d6e7f8`) must still pass unchanged into a pipe or file
    if c.has("hyperlinks") && t.coin() {
        c.set("hyperlinks-commit-link-format", "https://example.org/c/{commit}");
    }
    c
}


/// who called delta: free text must pass whatever git command produced it (`git show <tag>`,
/// `git log`, `git status`, ...); only `git show REV:file`, grep and blame callers turn handlers on
pub fn identities() -> Vec<Vec<String>> {
    let v = |a: &[&str]| a.iter().map(|s| s.to_string()).collect::<Vec<_>>();
    vec![v(&["git", "diff"]), v(&["git", "show", "v1.0"]), v(&["git", "log", "-p"]), v(&["git", "show", "HEAD"]), v(&["git", "diff"]), v(&["git", "show", "-s", "--format=%B", "HEAD"]), v(&["git", "show", "--oneline", "HEAD~2"])]
}

impl Prop for C04 {
    fn id(&self) -> &'static str {
        "C04"
    }
    fn identities(&self) -> Vec<Vec<String>> {
        identities()
    }
    fn cases(&self, tier: Tier) -> usize {
        match tier {
            Tier::Quick => 20_000,
            Tier::Thorough => 500_000,
        }
    }
    fn tape_len(&self, _t: Tier) -> usize {
        2500
    }
    fn rule(&self) -> String {
        "cases = stream of free-text lines (arbitrary Unicode, metadata-like prefixes, embedded balanced/unbalanced SGR/OSC/CSI sequences, CR variants, invalid UTF-8, NUL), never starting with a construct-opening marker (judged with escape sequences removed; a line starting with `{` that is not an `rg --json` record is free text too), (i) alone, (ii) before the first construct, (iii) as commit metadata/message between a commit line and its diff, interleaved with rendered git sections; every line carries a unique sentinel; x all option sets (incl. --relative-paths with GIT_PREFIX; free lines avoid the diffstat shape ` path | N +-`); calling processes git diff / git show <tag|rev> / git log -p / git show -s (none of which turns a text handler on). Oracle: (i) stdout == stdin after only the three permitted transforms computed independently (CR normalisation, lossy UTF-8, truncation); (ii)/(iii) every free line occurs exactly once in stdout, byte-identical, free lines in input order, and each section's sentinels lie between those of the neighbouring free blocks. Non-trivial = >=1 free line with an escape sequence / non-ASCII / CR / invalid byte and, for (ii)/(iii), >=1 rendered section; distinct by hash of (input, argv).".to_string()
    }
    fn assumptions(&self) -> Vec<String> {
        vec![
            "marker set written down in props/c04.rs::starts_with_marker, derived from the handler gates".to_string(),
            "text after a hunk without an intervening commit line is part of the hunk by delta's definition and is not generated".to_string(),
            "CR cases are generated constructively (trailing CR; CR + visible text; CR + colour codes only)".to_string(),
        ]
    }
    fn needs_binary(&self) -> bool {
        true
    }
    fn check(&self, t: &mut Tape, ctx: &mut Ctx) -> Verdict {
        let mut cfg = gen_cfg(t);
        // free lines stay below the maximum line length; a limit too small for any line is raised
        if let Some(m) = cfg.get("max-line-length").and_then(|v| v.parse::<usize>().ok()) {
            if m > 0 && m < 30 {
                cfg.set("max-line-length", "30");
            }
        }
        let mll: usize = cfg.get("max-line-length").and_then(|v| v.parse().ok()).unwrap_or(3000);
        let mode = t.weighted(&[3, 3, 4]);
        let mut sentinel = 0usize;
        // groups: Free(Vec<Free>) | Construct(lines with sentinel range)
        enum G {
            F(Vec<Free>),
            C(Vec<InLine>),
            /// a rendered section that is not a diff: `rg --json` records (handled whoever called delta)
            R(Vec<u8>),
        }
        let mut groups: Vec<G> = Vec::new();
        // (side-by-side raises the effective limit so that wrapped rows fit)
        let sbs = cfg.has("side-by-side") || cfg.get("features").map(|f| f.contains("side-by-side")).unwrap_or(false);
        let mut free_block = |t: &mut Tape, sentinel: &mut usize| {
            let n = t.range(1, 6);
            let mut v = Vec::new();
            for _ in 0..n {
                *sentinel += 1;
                if t.chance(1, 10) {
                    v.push(Free { bytes: Vec::new(), expected: Vec::new(), special: false, trunc: false }); // blank line
                } else if mll >= 30 && t.chance(1, if mll > 500 { 40 } else { 7 }) {
                    // built around the maximum line length; wider-than-the-limit lines only in
                    // the text-only mode, where the whole output is compared line by line
                    let over = mode == 0 && t.coin() && !sbs;
                    v.push(gen_long_line(t, *sentinel, mll, over));
                } else {
                    v.push(gen_free_line(t, *sentinel, mll));
                }
            }
            G::F(v)
        };

        let mut last_hunkless = false;
        let mut after_hunkless: std::collections::BTreeSet<usize> = std::collections::BTreeSet::new();
        let mut go = GenOpts::default_full();
        go.max_hunks = 2;
        go.max_lines = 5;
        go.allow_combined = false;
        go.text.allow_long = false;
        let mut n_sections = 0;
        match mode {
            0 => groups.push(free_block(t, &mut sentinel)),
            _ => {
                groups.push(free_block(t, &mut sentinel));
                if t.chance(1, 4) {
                    // an `rg --json` section, then text such as rg's diagnostics (`rg: ./x: Permission
                    // denied`) or a wrapper script's output: shaped like `word:rest`, but nobody ran grep
                    groups.push(G::R(crate::gen::other::rg_json_stream(t)));
                    let mut b = free_block(t, &mut sentinel);
                    if let G::F(v) = &mut b {
                        for f in v.iter_mut() {
                            if !f.bytes.is_empty() && !f.trunc && f.bytes.len() + 12 < mll.max(1) && t.coin() {
                                let pre = t.ps(&["rg: ", "warning: ", "./a/b.rs: ", "note-", "x.rs:12:", "total=", "src/main.rs-3-"]).as_bytes().to_vec();
                                f.bytes = [pre.clone(), f.bytes.clone()].concat();
                                f.expected = [pre, f.expected.clone()].concat();
                                f.special = true;
                            }
                        }
                    }
                    groups.push(b);
                    ctx.class("text-after-rg-json-section");
                }
                let ncommits = t.range(1, 3);
                // `git log --oneline -p`: a commit is introduced by one line of free text
                // (`1a2b3c4 subject`, the hash coloured or not) directly after the previous commit's diff
                let oneline = t.chance(1, 4);
                ctx.class_if(oneline, "one-line-commit-headers");
                for ci in 0..ncommits {
                    // commit line (a construct), then free metadata/message, then sections
                    if (mode == 2 || ci > 0) && oneline {
                        sentinel += 1;
                        let hash = crate::gen::text::hex(t, 7);
                        let subject = crate::gen::text::code_tokens(t, 3, &TextOpts { allow_markerlike: false, allow_tabs: false, allow_long: false, ..TextOpts::all() });
                        let line = if t.coin() { format!("\x1b[33m{}\x1b[m ⟦{}⟧ {}", hash, sentinel, subject) } else { format!("{} ⟦{}⟧ {}", hash, sentinel, subject) };
                        if last_hunkless {
                            after_hunkless.insert(sentinel);
                        }
                        let b = line.into_bytes();
                        groups.push(G::F(vec![Free { bytes: b.clone(), expected: b, special: true, trunc: false }]));
                    } else if mode == 2 || ci > 0 {
                        let c = gen_commit(t, &[]);
                        groups.push(G::C(vec![InLine { text: format!("commit {}{}", c.hash, c.decoration), role: Role::CommitLine }]));
                        groups.push(free_block(t, &mut sentinel));
                    }
                    let ns = t.range(1, 2);
                    let mut ls = Vec::new();
                    for _ in 0..ns {
                        let mut s = gen_section(t, &go);
                        // plant sentinels in hunk lines
                        for h in s.hunks.iter_mut() {
                            for l in h.lines.iter_mut() {
                                if t.chance(1, 3) && s.kind != crate::gen::diff::SK::SubmoduleShort {
                                    sentinel += 1;
                                    l.text = format!("{} ⟦{}⟧", l.text, sentinel);
                                }
                            }
                        }
                        // re-render headers (line counts unchanged)
                        render_section(&s, n_sections, &mut ls);
                        n_sections += 1;
                        last_hunkless = !s.kind.has_hunks() || s.hunks.is_empty();
                    }
                    groups.push(G::C(ls));
                }
            }
        }
        // header lines must survive truncation
        for g in &groups {
            if let G::C(ls) = g {
                crate::gen::config::keep_headers_intact(&mut cfg, ls);
            }
        }
        let mll: usize = cfg.get("max-line-length").and_then(|v| v.parse().ok()).unwrap_or(3000);
        // assemble
        let mut input: Vec<u8> = Vec::new();
        for g in &groups {
            match g {
                G::F(v) => {
                    for f in v {
                        input.extend_from_slice(&f.bytes);
                        input.push(b'\n');
                    }
                }
                G::C(ls) => input.extend_from_slice(&lines_to_bytes(ls, true)),
                G::R(b) => input.extend_from_slice(b),
            }
        }
        for g in &groups {
            if let G::F(v) = g {
                ctx.class_if(v.iter().any(|f| f.trunc), "line-wider-than-max-line-length");
                ctx.class_if(v.iter().any(|f| !f.trunc && mll > 0 && f.bytes.len() > mll), "line-longer-in-bytes-only");
            }
        }
        ctx.class(match mode {
            0 => "text-only",
            1 => "text-before-constructs",
            _ => "commit-message-text",
        });
        let out = match exec::run_cfg(&cfg, ctx, &input) {
            Ok(o) => o,
            Err(mut f) => {
                f.detail = json!({"case": exec::case_json(&cfg, &input)});
                f.traits = crate::props::c03::failure_traits(&cfg, &input);
                return Verdict::Fail(f);
            }
        };
        let detail = || json!({"case": exec::case_json(&cfg, &input), "output_printable": exec::printable(&out[..out.len().min(6000)])});
        let fail = |sig: &str, msg: String| Verdict::Fail(Failure::new(format!("C04:{}", sig), msg).with(detail()));
        let any_special = groups.iter().any(|g| matches!(g, G::F(v) if v.iter().any(|f| f.special)));
        let _ = mll;
        if mode == 0 {
            // exact equality with the expected transform
            let mut want: Vec<u8> = Vec::new();
            if let G::F(v) = &groups[0] {
                for f in v {
                    want.extend_from_slice(&f.expected);
                    want.push(b'\n');
                }
            }
            let has_trunc = matches!(&groups[0], G::F(v) if v.iter().any(|f| f.trunc));
            if has_trunc {
                // line by line: a line wider than the limit must show its first mll-1 columns and
                // the truncation mark (visible text, decoded by the terminal model); all others
                // must be byte-identical
                let a: Vec<&[u8]> = out.split(|b| *b == b'\n').collect();
                if let G::F(v) = &groups[0] {
                    if a.len() != v.len() + 1 {
                        return fail("not-identical", format!("text-only stream of {} lines gives {} output lines", v.len(), a.len() - 1));
                    }
                    for (i, f) in v.iter().enumerate() {
                        if f.trunc {
                            let shown = term::visible_text(a[i]);
                            if shown.as_bytes() != &f.expected[..] {
                                return fail("truncation", format!("line {} is wider than max-line-length={}: expected its first {} columns and the truncation mark, `{}`; shown `{}`", i + 1, mll, mll - 1, String::from_utf8_lossy(&f.expected), shown));
                            }
                        } else if a[i] != &f.expected[..] {
                            return fail("not-identical", format!("text-only stream: output differs from input at line {}: wrote `{}`, expected `{}`", i + 1, exec::printable(a[i]), exec::printable(&f.expected)));
                        }
                    }
                }
            } else if out != want {
                let a: Vec<&[u8]> = out.split(|b| *b == b'\n').collect();
                let b: Vec<&[u8]> = want.split(|b| *b == b'\n').collect();
                let i = a.iter().zip(b.iter()).position(|(x, y)| x != y).unwrap_or(a.len().min(b.len()));
                return fail("not-identical", format!("text-only stream: output differs from input at line {}: wrote `{}`, expected `{}`", i + 1, exec::printable(a.get(i).copied().unwrap_or(b"<end>")), exec::printable(b.get(i).copied().unwrap_or(b"<end>"))));
            }
        } else {
            // every free line exactly once, byte-identical, in order; constructs between them
            let out_lines: Vec<&[u8]> = out.split(|b| *b == b'\n').collect();
            let mut pos = 0usize; // next output line to search from
            let vis = term::visible_text(&out);
            let mut last_free_sentinel_pos = 0usize;
            let mut s_no = 0usize;
            let mut deferred: Option<Failure> = None;
            for g in &groups {
                match g {
                    G::F(v) => {
                        for f in v {
                            s_no += 1;
                            if f.bytes.is_empty() {
                                continue; // blank lines are not unique
                            }
                            let found = out_lines[pos..].iter().position(|l| *l == &f.expected[..]);
                            match found {
                                Some(k) => pos += k + 1,
                                None if after_hunkless.contains(&s_no) => {
                                    // the listed finding KF-C04-1: remembered, reported last
                                    if let Verdict::Fail(mut fl) = fail("free-line-altered-or-lost", format!("the one-line commit header `{}` (git log --oneline -p) that follows a file section without hunks (mode change, binary, empty or purely renamed file) is not written at all: it is taken for one more line of that section's header block", exec::printable(&f.bytes))) {
                                        fl.traits.push("one-line-commit-header-after-hunkless-section".to_string());
                                        if deferred.is_none() {
                                            deferred = Some(fl);
                                        }
                                    }
                                    continue;
                                }
                                None => {
                                    let anywhere = out_lines.iter().filter(|l| **l == &f.expected[..]).count();
                                    let sent = format!("⟦{}⟧", s_no);
                                    let shown = vis.lines().find(|l| l.contains(&sent)).unwrap_or("<not shown at all>");
                                    return fail(
                                        if anywhere > 0 { "free-line-out-of-order" } else { "free-line-altered-or-lost" },
                                        format!("free line `{}` must be written byte for byte; found {} times in the output, out of order or altered; the output shows `{}`", exec::printable(&f.bytes), anywhere, exec::printable(shown.as_bytes())),
                                    );
                                }
                            }
                            if out_lines.iter().filter(|l| **l == &f.expected[..]).count() != 1 {
                                return fail("free-line-duplicated", format!("free line `{}` occurs more than once in the output", exec::printable(&f.bytes)));
                            }
                            let sent = format!("⟦{}⟧", s_no);
                            if let Some(p) = vis.find(&sent) {
                                last_free_sentinel_pos = p;
                            }
                        }
                    }
                    G::R(_) => {}
                    G::C(ls) => {
                        // sentinels of this construct lie after the preceding free block
                        for l in ls {
                            if let Some(a) = l.text.find('⟦') {
                                if let Some(b) = l.text[a..].find('⟧') {
                                    let sent = &l.text[a..a + b + '⟧'.len_utf8()];
                                    s_no += 1;
                                    match vis.find(sent) {
                                        Some(p) if p >= last_free_sentinel_pos => {}
                                        Some(_) => return fail("interleaving", format!("hunk line `{}` is shown before the free text that precedes its section", l.text)),
                                        None => {} // hunk lines may be truncated/omitted by explicit options; that is C01's business
                                    }
                                }
                            }
                        }
                    }
                }
            }
            // the construct groups' sentinels must also precede the following free block: checked
            // by `pos` advancing monotonically over free lines and the visible positions above
            if let Some(f) = deferred {
                return Verdict::Fail(f);
            }
        }
        if any_special && (mode == 0 || n_sections > 0) {
            let mut h = fnv(&input);
            h = fnv_add(h, &cfg.fingerprint().to_le_bytes());
            ctx.nontrivial(h);
            if ctx.want_sample() {
                ctx.sample(json!({"mode": mode, "argv": cfg.base_args(), "input": exec::printable(&input[..input.len().min(1200)])}));
            }
        }
        if ctx.want_xcheck() && cfg.gitconfig.is_none() && cfg.env.current_dir.is_none() {
            ctx.xchecks.push(json!({"argv": cfg.args(None), "env": exec::env_from_spec(&cfg.env), "cwd": cfg.env.current_dir,
                "identity": ctx.identity, "input_hex": exec::hex(&input), "out_hash": format!("{:016x}", fnv(&out))}));
        }
        Verdict::Pass
    }
    fn supervisor_phase(&self, sup: &mut Sup) {
        crate::xcheck::binary_crosscheck(sup, false);
    }
    fn fuzz_decoders(&self) -> Vec<&'static str> {
        vec!["C04", "C04R"]
    }
}

// ---------------------------------------------------------------------------------------------
// C04R — raw decoder for the coverage-guided tier: option set from the first tape values, the
// rest is the text stream, byte for byte.  Domain (judged on the bytes, no model involved): no
// ESC and no CR anywhere, no line beginning with a construct-opening marker, unlimited line
// length, no --relative-paths (which rewrites diffstat-shaped lines).  Then the only permitted
// change is the replacement of invalid UTF-8, and the oracle is exact: stdout = lossy(stdin),
// line for line.  libFuzzer's byte mutations (with a dictionary of near-markers) look for text
// that some handler claims although it is not a construct.

pub struct C04R;

impl Prop for C04R {
    fn id(&self) -> &'static str {
        "C04R"
    }
    fn identities(&self) -> Vec<Vec<String>> {
        identities()
    }
    fn cases(&self, _tier: Tier) -> usize {
        0
    }
    fn tape_len(&self, _t: Tier) -> usize {
        crate::props::c03::RAW_HEADER + 1024
    }
    fn rule(&self) -> String {
        "raw decoder of C04 (coverage-guided tier only)".to_string()
    }
    fn assumptions(&self) -> Vec<String> {
        Vec::new()
    }
    fn check(&self, t: &mut Tape, ctx: &mut Ctx) -> Verdict {
        let mut head = t.fork(crate::props::c03::RAW_HEADER);
        let mut cfg = gen_cfg(&mut head);
        cfg.set("max-line-length", "0");
        cfg.unset("relative-paths");
        cfg.env.git_prefix = None;
        let mut input = t.rest_bytes();
        while input.last() == Some(&0) {
            input.pop();
        }
        if input.iter().any(|b| *b == 0x1b || *b == b'\r') {
            return Verdict::Skip("raw text with ESC or CR");
        }
        let text = String::from_utf8_lossy(&input).into_owned();
        if text.split('\n').any(|l| starts_with_marker(l)) {
            return Verdict::Skip("raw text with a construct-opening marker");
        }
        ctx.class("raw-text");
        let out = match exec::run_cfg(&cfg, ctx, &input) {
            Ok(o) => o,
            Err(mut f) => {
                f.detail = json!({"case": exec::case_json(&cfg, &input)});
                f.traits = crate::props::c03::failure_traits(&cfg, &input);
                return Verdict::Fail(f);
            }
        };
        // expected: every input line, lossily decoded, followed by a newline
        let mut want: Vec<u8> = Vec::with_capacity(input.len() + 1);
        let mut lines: Vec<&[u8]> = input.split(|b| *b == b'\n').collect();
        if lines.last().map(|l| l.is_empty()).unwrap_or(false) {
            lines.pop();
        }
        for l in &lines {
            want.extend_from_slice(String::from_utf8_lossy(l).as_bytes());
            want.push(b'\n');
        }
        if out != want {
            let a: Vec<&[u8]> = out.split(|b| *b == b'\n').collect();
            let b: Vec<&[u8]> = want.split(|b| *b == b'\n').collect();
            let i = a.iter().zip(b.iter()).position(|(x, y)| x != y).unwrap_or(a.len().min(b.len()));
            return Verdict::Fail(
                Failure::new("C04:not-identical", format!("text-only stream (no marker, no escape sequence): output differs from input at line {}: wrote `{}`, expected `{}`", i + 1, exec::printable(a.get(i).copied().unwrap_or(b"<end>")), exec::printable(b.get(i).copied().unwrap_or(b"<end>"))))
                    .with(json!({"case": exec::case_json(&cfg, &input), "output_printable": exec::printable(&out[..out.len().min(3000)])})),
            );
        }
        if !text.is_ascii() || std::str::from_utf8(&input).is_err() {
            let mut h = fnv(&input);
            h = fnv_add(h, &cfg.fingerprint().to_le_bytes());
            ctx.nontrivial(h);
        }
        Verdict::Pass
    }
    fn fuzz_seeds(&self, seed: u64) -> Vec<Vec<u8>> {
        // commit-message-like prose, git status output, a build log: free text close to markers
        let bodies: [&str; 4] = [
            "On branch main\nYour branch is up to date with 'origin/main'.\n\nChanges not staged for commit:\n\tmodified:   src/delta.rs\n\nno changes added to commit\n",
            "Author: A U Thor <a@example.com>\nDate:   Mon Jan 1 00:00:00 2024 +0000\n\n    Fix the thing\n\n    - item one\n    + item two\n    -- not a header\n    ++ neither\n    index of things\n",
            "  Compiling foo v0.1.0\nwarning: unused variable: `x`\n --> src/main.rs:3:9\n  |\n3 |     let x = 1;\n  |         ^\n\nerror: aborting due to 1 previous error\n",
            " commit is a word\n Binary search tree\n rename it later\n similarity 90%\n Only the brave\n Submodules are fun\n old modes of thought\n <<<<<<< nothing\n======= nothing\n>>>>>>> nothing\n",
        ];
        let mut out = Vec::new();
        for (i, b) in bodies.iter().enumerate() {
            for k in 0..3u64 {
                let mut v: Vec<u8> = Vec::new();
                for j in 0..crate::props::c03::RAW_HEADER as u64 {
                    let h = if k == 0 { 0 } else { (fnv(&[(seed & 255) as u8, i as u8, k as u8, j as u8, 4]) >> 20) as u32 };
                    v.extend_from_slice(&h.to_le_bytes());
                }
                v.extend_from_slice(b.as_bytes());
                out.push(v);
            }
        }
        out
    }
    fn fuzz_decoders(&self) -> Vec<&'static str> {
        Vec::new()
    }
}
