//! C16 — grep output keeps every hit's path, line number and code.
use serde_json::json;

use crate::exec;
use crate::gen::config::{gen_tagged_cfg, Cfg, CfgOpts, Tag};
use crate::gen::text::{self, TextOpts};
use crate::rows;
use crate::runner::{Ctx, Failure, Prop, Sup, Tier, Verdict};
use crate::tape::{fnv, fnv_add, Tape};
use crate::term;

pub struct C16;

pub fn identities() -> Vec<Vec<String>> {
    let v = |a: &[&str]| a.iter().map(|s| s.to_string()).collect::<Vec<_>>();
    vec![v(&["git", "grep", "-n", "x"]), v(&["rg", "x"]), v(&["git", "grep", "-n", "x"]), v(&["git", "grep", "-W", "-n", "x"]), v(&["git", "grep", "-n", "-p", "x"])]
}

#[derive(Clone, Copy, Debug, PartialEq, Eq)]
enum Kind {
    Match,
    Context,
    Header, // function-context header line ('=')
}

#[derive(Clone, Debug)]
struct Hit {
    path: String,
    number: Option<u64>,
    kind: Kind,
    code: String,
    /// byte ranges of the reported submatches (JSON dialect)
    submatches: Vec<(usize, usize)>,
}

#[derive(Clone, Copy, Debug, PartialEq, Eq)]
enum Dialect {
    Coloured,
    PlainNumbers,
    PlainNoNumbers,
    Json,
}

const EXTS: &[&str] = &["rs", "py", "c", "js", "sh", "toml", "md", "h", "java", "yml"];

fn gen_path(t: &mut Tape, plain: bool) -> String {
    // dashes, digits, dots, spaces
    let dirs = ["src", "x-1", "2024-01-02", "v1.2", "a-7-b", "dir with space", "co-7-fig", "lib", "deep/er"];
    let stems = ["main", "co-7-fig", "a.b", "x_1", "foo bar", "7", "test-12-x", "ünï"];
    let mut parts: Vec<String> = Vec::new();
    for _ in 0..t.weighted(&[3, 4, 2]) {
        parts.push(t.pick(&dirs).to_string());
    }
    if t.chance(1, 8) {
        // extension-less name; in plain dialects it must be free of ':', '-', '=' (whole path)
        let n = t.ps(&["Makefile", "Dockerfile", "README", "LICENSE"]).to_string();
        if plain {
            let dirs_ok: Vec<String> = parts.into_iter().filter(|d| !d.contains('-') && !d.contains('.')).collect();
            let mut p = dirs_ok;
            p.push(n);
            return p.join("/");
        }
        parts.push(n);
        return parts.join("/");
    }
    parts.push(format!("{}.{}", t.pick(&stems), t.pick(EXTS)));
    parts.join("/")
}

/// code for the plain dialects: never contains `name.ext` followed by a separator look-alike
/// (constructed, not filtered: every '.' is followed by a blank)
fn sanitize_plain_code(s: &str) -> String {
    let mut out = String::new();
    let cs: Vec<char> = s.chars().collect();
    for (i, c) in cs.iter().enumerate() {
        out.push(*c);
        if *c == '.' && i + 1 < cs.len() && cs[i + 1] != ' ' {
            out.push(' ');
        }
    }
    out
}

fn gen_stream(t: &mut Tape, dialect: Dialect, identity: &[String]) -> (Vec<u8>, Vec<Hit>) {
    let plain = matches!(dialect, Dialect::PlainNumbers | Dialect::PlainNoNumbers);
    let o = TextOpts { allow_markerlike: !plain, allow_long: false, allow_trailing_ws: false, allow_tabs: true, ..TextOpts::all() };
    let function_context = identity.iter().any(|a| a == "-W" || a == "-p");
    let nfiles = t.range(1, 4);
    // a grep tool either prints line numbers or it does not
    let stream_numbers = dialect != Dialect::PlainNoNumbers && !(dialect == Dialect::Coloured && t.chance(1, 5));
    let mut hits: Vec<Hit> = Vec::new();
    let mut out: Vec<u8> = Vec::new();
    let mut used_paths: Vec<String> = Vec::new();
    for _ in 0..nfiles {
        let mut path = gen_path(t, plain);
        // two files whose names differ only in the case of a letter (xt_DSCP.h / xt_dscp.h,
        // Makefile / makefile) are two files
        if let Some(prev) = used_paths.last() {
            if t.chance(1, 6) {
                let flipped: String = match prev.rfind(|c: char| c.is_ascii_alphabetic()) {
                    Some(i) => {
                        let c = prev[i..].chars().next().unwrap();
                        let f = if c.is_ascii_lowercase() { c.to_ascii_uppercase() } else { c.to_ascii_lowercase() };
                        format!("{}{}{}", &prev[..i], f, &prev[i + 1..])
                    }
                    None => prev.clone(),
                };
                if &flipped != prev {
                    path = flipped;
                }
            }
        }
        while used_paths.contains(&path) {
            path = format!("n/{}", path);
        }
        used_paths.push(path.clone());
        let n = t.range(1, 6);
        let mut ln = t.range(1, 120) as u64;
        if dialect == Dialect::Json {
            out.extend_from_slice(format!("{{\"type\":\"begin\",\"data\":{{\"path\":{{\"text\":{}}}}}}}\n", serde_json::to_string(&path).unwrap()).as_bytes());
        }
        let mut prev_ctx_group_end = false;
        for k in 0..n {
            let kind = match t.weighted(&[5, 3, if function_context && dialect != Dialect::Json { 1 } else { 0 }]) {
                0 => Kind::Match,
                1 => Kind::Context,
                _ => Kind::Header,
            };
            let mut code = {
                let mut c = text::content(t, &o);
                if dialect == Dialect::Json {
                    // tabs only in leading indentation
                    let lead: String = c.chars().take_while(|ch| *ch == '\t' || *ch == ' ').collect();
                    let rest: String = c[lead.len()..].replace('\t', " ");
                    c = format!("{}{}", lead, rest);
                }
                if plain {
                    c = sanitize_plain_code(&c);
                }
                c
            };
            if plain && code.is_empty() {
                code = "x".to_string();
            }
            if kind == Kind::Header {
                // function headers are identified by their text
                code = format!("{} hdr{}", code.trim_end(), hits.len());
            }
            // a jump in line numbers within a context group produces a "--" separator line in real output
            if k > 0 && t.chance(1, 4) {
                ln += t.range(2, 9) as u64;
                if dialect != Dialect::Json && t.coin() {
                    out.extend_from_slice(b"--\n");
                    prev_ctx_group_end = true;
                }
            } else {
                ln += 1;
            }
            let _ = prev_ctx_group_end;
            let number = if stream_numbers { Some(ln) } else { None };
            if plain && number.is_none() {
                // `path-123-text` without line numbers is inherently indistinguishable from a numbered line
                let digits = code.chars().take_while(|c| c.is_ascii_digit()).count();
                if digits > 0 && code[digits..].starts_with(|c| c == ':' || c == '-' || c == '=') {
                    code = format!("n{}", code);
                }
            }
            if number.is_none() && code.is_empty() {
                code = "x".to_string(); // (a hit without number and without text would be an invisible row)
            }
            let sep = match kind {
                Kind::Match => ':',
                Kind::Context => '-',
                Kind::Header => '=',
            };
            let mut submatches = Vec::new();
            match dialect {
                Dialect::Coloured => {
                    let mut l = format!("\x1b[35m{}\x1b[m\x1b[36m{}\x1b[m", path, sep);
                    if let Some(n) = number {
                        l.push_str(&format!("\x1b[32m{}\x1b[m\x1b[36m{}\x1b[m", n, sep));
                    }
                    // matches marked bold red
                    if kind == Kind::Match {
                        if let Some(w) = code.split(' ').find(|w| !w.is_empty() && w.is_ascii() && !w.contains('\t')) {
                            let w = w.to_string();
                            let marked = code.replacen(&w, &format!("\x1b[1;31m{}\x1b[m", w), 1);
                            l.push_str(&marked);
                        } else {
                            l.push_str(&code);
                        }
                    } else {
                        l.push_str(&code);
                    }
                    out.extend_from_slice(l.as_bytes());
                    out.push(b'\n');
                }
                Dialect::PlainNumbers | Dialect::PlainNoNumbers => {
                    let mut l = format!("{}{}", path, sep);
                    if let Some(n) = number {
                        l.push_str(&format!("{}{}", n, sep));
                    }
                    l.push_str(&code);
                    out.extend_from_slice(l.as_bytes());
                    out.push(b'\n');
                }
                Dialect::Json if kind == Kind::Match && t.chance(1, 6) => {
                    // a multi-line match (rg --multiline): one record, two lines of text, one
                    // submatch reaching from a word of the first line into the second
                    let code2 = {
                        // (no leading blanks: the second part of the submatch starts at column 0)
                        let c = text::content(t, &o);
                        format!("w{}", c.trim_start().replace('\t', " "))
                    };
                    let eol = if t.chance(1, 8) { "\r\n" } else { "\n" };
                    let text = format!("{}{}{}{}", code, eol, code2, eol);
                    let a = code.rfind(' ').map(|i| i + 1).unwrap_or(0);
                    let lead2 = code2.chars().take_while(|ch| *ch == '\t' || *ch == ' ').count();
                    let b2 = code2[lead2..].find(' ').map(|i| lead2 + i).unwrap_or(code2.len());
                    let b = code.len() + eol.len() + b2;
                    let mut sub1 = Vec::new();
                    if a < code.len() {
                        sub1.push((a, code.len()));
                    }
                    let sub2 = vec![(0, b2)];
                    out.extend_from_slice(
                        format!(
                            "{{\"type\":\"match\",\"data\":{{\"path\":{{\"text\":{}}},\"lines\":{{\"text\":{}}},\"line_number\":{},\"absolute_offset\":{},\"submatches\":[{{\"match\":{{\"text\":{}}},\"start\":{},\"end\":{}}}]}}}}\n",
                            serde_json::to_string(&path).unwrap(),
                            serde_json::to_string(&text).unwrap(),
                            ln,
                            t.below(100000),
                            serde_json::to_string(&text[a..b]).unwrap(),
                            a,
                            b
                        )
                        .as_bytes(),
                    );
                    hits.push(Hit { path: path.clone(), number: Some(ln), kind, code: code.clone(), submatches: sub1 });
                    ln += 1;
                    hits.push(Hit { path: path.clone(), number: Some(ln), kind, code: code2, submatches: sub2 });
                    continue;
                }
                Dialect::Json => {
                    let text = format!("{}{}", code, if t.chance(1, 8) { "\r\n" } else { "\n" });
                    if kind == Kind::Match {
                        // submatches: byte ranges of some words
                        let mut pos = 0;
                        for w in code.split(' ') {
                            if !w.is_empty() && !w.contains('\t') && t.chance(1, 3) && submatches.len() < 3 {
                                submatches.push((pos, pos + w.len()));
                            }
                            pos += w.len() + 1;
                        }
                    }
                    let subs: Vec<String> = submatches.iter().map(|(a, b)| format!("{{\"match\":{{\"text\":{}}},\"start\":{},\"end\":{}}}", serde_json::to_string(&code[*a..*b]).unwrap(), a, b)).collect();
                    out.extend_from_slice(
                        format!(
                            "{{\"type\":\"{}\",\"data\":{{\"path\":{{\"text\":{}}},\"lines\":{{\"text\":{}}},\"line_number\":{},\"absolute_offset\":{},\"submatches\":[{}]}}}}\n",
                            if kind == Kind::Match { "match" } else { "context" },
                            serde_json::to_string(&path).unwrap(),
                            serde_json::to_string(&text).unwrap(),
                            ln,
                            t.below(100000),
                            subs.join(",")
                        )
                        .as_bytes(),
                    );
                }
            }
            hits.push(Hit { path: path.clone(), number: if dialect == Dialect::Json { Some(ln) } else { number }, kind: if dialect == Dialect::Json && kind == Kind::Header { Kind::Context } else { kind }, code, submatches });
        }
        if dialect == Dialect::Json {
            out.extend_from_slice(format!("{{\"type\":\"end\",\"data\":{{\"path\":{{\"text\":{}}},\"binary_offset\":null,\"stats\":{{\"elapsed\":{{\"secs\":0,\"nanos\":1,\"human\":\"0.0s\"}},\"searches\":1,\"searches_with_match\":1,\"bytes_searched\":1,\"bytes_printed\":1,\"matched_lines\":1,\"matches\":1}}}}}}\n", serde_json::to_string(&path).unwrap()).as_bytes());
        }
    }
    if dialect == Dialect::Json && t.coin() {
        out.extend_from_slice(b"{\"data\":{\"elapsed_total\":{\"human\":\"0.1s\",\"nanos\":1,\"secs\":0},\"stats\":{\"bytes_printed\":1,\"bytes_searched\":1,\"elapsed\":{\"human\":\"0.0s\",\"nanos\":1,\"secs\":0},\"matched_lines\":1,\"matches\":1,\"searches\":1,\"searches_with_match\":1}},\"type\":\"summary\"}\n");
    }
    (out, hits)
}

fn path_has_dot_then_numbered_separator(p: &str) -> bool {
    // a '.' that is followed, later in the path, by a separator character
    match p.find('.') {
        Some(i) => p[i + 1..].contains(|c| c == '-' || c == ':' || c == '='),
        None => false,
    }
}

fn is_path_tag(t: Option<Tag>) -> bool {
    matches!(t, Some(Tag::GrepFile) | Some(Tag::GrepHeaderFile))
}
fn is_number_tag(t: Option<Tag>) -> bool {
    matches!(t, Some(Tag::GrepLn) | Some(Tag::HunkHeaderLn))
}
fn is_code_tag(t: Option<Tag>) -> bool {
    matches!(t, Some(Tag::GrepMatchLine) | Some(Tag::GrepMatchWord) | Some(Tag::GrepContext) | Some(Tag::HunkHeader))
}

impl Prop for C16 {
    fn id(&self) -> &'static str {
        "C16"
    }
    fn identities(&self) -> Vec<Vec<String>> {
        identities()
    }
    fn cases(&self, tier: Tier) -> usize {
        match tier {
            Tier::Quick => 12_000,
            Tier::Thorough => 250_000,
        }
    }
    fn tape_len(&self, _t: Tier) -> usize {
        2500
    }
    fn rule(&self) -> String {
        "cases = grep result stream of 1-4 files x 1-6 lines in one of four dialects: coloured git grep (magenta path, cyan separators, green numbers, bold-red matches, ESC[m resets), plain `path:n:code` / `path-n-code` / `path=n=code`, plain without numbers, `rg --json` (begin/match/context/end/summary, submatches, CRLF, tabs in leading indentation); paths with dashes, digits, dots, spaces, non-ASCII; context lines, `--` group separators, function-context headers under -W/-p identities; plain dialects only inside the guaranteed sub-domain, constructed: path has an extension (or is an extension-less name free of ':', '-', '=') and every '.' in the code is followed by a blank; x tagged option set with both grep-output-types; calling process git grep / rg (in-process). Oracle (cells read by tag): for every hit, once and in order: same path (in the row for classic output, in the preceding file-header row for ripgrep output), same number when present, same code with tabs expanded; JSON: the cells painted with the match-word style are exactly the reported submatch ranges. Non-trivial = >=2 files, >=1 context line, >=1 path containing -digit- or a space; distinct by hash of (input, argv).".to_string()
    }
    fn assumptions(&self) -> Vec<String> {
        vec![
            "coloured dialect uses git's sequences (other tools' colour schemes are not claimed)".to_string(),
            "plain dialects restricted to the unambiguous sub-domain stated in the property".to_string(),
            "terminal model; tag attribution".to_string(),
        ]
    }
    fn needs_binary(&self) -> bool {
        false
    }
    fn check(&self, t: &mut Tape, ctx: &mut Ctx) -> Verdict {
        let mut co = CfgOpts::unified();
        co.allow_presets = false;
        co.allow_hyperlinks = false;
        let mut cfg = gen_tagged_cfg(t, &co);
        for k in ["features", "navigate", "relative-paths", "line-numbers", "max-line-length", "keep-plus-minus-markers"] {
            cfg.unset(k);
        }
        // header decorations off: the oracle reads rows, a box adds rows but no text
        let out_type = match t.weighted(&[2, 2, 2]) {
            0 => None,
            1 => Some("classic"),
            _ => Some("ripgrep"),
        };
        if let Some(o) = out_type {
            cfg.set("grep-output-type", o);
        }
        if t.chance(1, 4) {
            cfg.set("grep-separator-symbol", t.ps(&[":", "keep", "|"]));
        }
        let dialect = match t.weighted(&[3, 3, 2, 3]) {
            0 => Dialect::Coloured,
            1 => Dialect::PlainNumbers,
            2 => Dialect::PlainNoNumbers,
            _ => Dialect::Json,
        };
        // `rg --json` records are exempt from --max-line-length (a cut record is no record): hits must
        // survive a limit far below the length of every record
        if dialect == Dialect::Json {
            let mut f = t.fork(2);
            if f.chance(1, 3) {
                cfg.set("max-line-length", f.ps(&["80", "150", "300", "1"]));
                ctx.class("json-records-longer-than-max-line-length");
            }
        }
        let identity = ctx.identity.clone();
        let (input, hits) = gen_stream(t, dialect, &identity);
        ctx.class(&format!("{:?}", dialect));
        let out = match exec::run_cfg(&cfg, ctx, &input) {
            Ok(o) => o,
            Err(mut f) => {
                f.detail = json!({"case": exec::case_json(&cfg, &input), "identity": identity});
                f.traits = crate::props::c03::failure_traits(&cfg, &input);
                return Verdict::Fail(f);
            }
        };
        let effective_ripgrep = match out_type {
            Some("ripgrep") => true,
            Some(_) => false,
            None => dialect == Dialect::Json,
        };
        let tabw = rows::tab_width(&cfg);
        let sc = term::decode(&out);
        let detail = || json!({"case": exec::case_json(&cfg, &input), "identity": identity, "output_printable": exec::printable(&out[..out.len().min(6000)])});
        let fail = |sig: &str, msg: String| {
            let mut tr = crate::props::c03::failure_traits(&cfg, &input);
            // plain dialect: a dotted path component followed, later in the path, by -digits- / :digits: / =digits=
            if matches!(dialect, Dialect::PlainNumbers | Dialect::PlainNoNumbers) && hits.iter().any(|h| path_has_dot_then_numbered_separator(&h.path)) {
                tr.push("plain-path-with-dot-then-separator".to_string());
            }
            // plain dialect: extension-less path and a code text that begins with a separator character
            if matches!(dialect, Dialect::PlainNumbers | Dialect::PlainNoNumbers)
                && hits.iter().any(|h| h.code.starts_with(|c| c == '=' || c == ':' || c == '-'))
            {
                tr.push("plain+code-starts-with-separator".to_string());
            }
            Verdict::Fail(Failure::new(format!("C16:{}", sig), msg).with(detail()).traits(tr))
        };
        // walk rows
        let mut hi = 0usize;
        let mut cur_header_path: Option<String> = None;
        for (ri, row) in sc.rows.iter().enumerate() {
            let tag = |c: &term::Cell| Tag::from_color(c.st.bg);
            let path: String = row.cells.iter().filter(|c| is_path_tag(tag(c))).map(|c| c.text.as_str()).collect();
            let number: String = row.cells.iter().filter(|c| is_number_tag(tag(c))).map(|c| c.text.as_str()).collect();
            let has_code = row.cells.iter().any(|c| is_code_tag(tag(c))) || row.erases.iter().any(|e| is_code_tag(Tag::from_color(e.st.bg)));
            let code: String = row.cells.iter().filter(|c| is_code_tag(tag(c))).map(|c| c.text.as_str()).collect();
            if !path.is_empty() && number.is_empty() && !has_code {
                // a file header row (ripgrep output type)
                cur_header_path = Some(path.clone());
                continue;
            }
            // function-context header lines are rendered like hunk headers: whether path and number
            // are shown there depends on hunk-header-style; only the code is looked for
            if let Some(h) = hits.get(hi) {
                if h.kind == Kind::Header {
                    let want = rows::expand_tabs(&h.code, tabw);
                    if row.text().contains(want.trim()) {
                        hi += 1;
                    }
                    continue;
                }
            }
            if path.is_empty() && number.is_empty() && !has_code {
                continue; // blank separators, "--", decorations
            }
            // a hit row
            let h = match hits.get(hi) {
                Some(h) => h,
                None => return fail("extra-hit", format!("output row {} `{}` shows a hit after all {} input hits were shown", ri, row.text(), hits.len())),
            };
            let shown_path = if path.is_empty() { cur_header_path.clone().unwrap_or_default() } else { path.clone() };
            if shown_path != h.path {
                return fail("path", format!("hit {} ({}:{:?}): shown under path `{}`, expected `{}` (output row {} `{}`)", hi, h.path, h.number, shown_path, h.path, ri, row.text()));
            }
            if effective_ripgrep && !path.is_empty() && row.cells.iter().any(|c| is_code_tag(tag(c))) && Some(&path) != cur_header_path.as_ref() {
                // (classic rows carry their own path; ripgrep rows rely on the header)
            }
            match h.number {
                Some(n) => {
                    if number.trim() != n.to_string() {
                        return fail("line-number", format!("hit {} ({}:{}): the row shows number `{}` (output row {} `{}`)", hi, h.path, n, number.trim(), ri, row.text()));
                    }
                }
                None => {
                    if !number.trim().is_empty() {
                        return fail("line-number", format!("hit {} ({}) has no line number, the row shows `{}`", hi, h.path, number.trim()));
                    }
                }
            }
            let want = rows::expand_tabs(&h.code, tabw);
            // (a background-filled row is padded with blanks in the code style)
            let ok = code == want || (code.starts_with(&want) && code[want.len()..].chars().all(|c| c == ' '));
            if !ok {
                return fail("code", format!("hit {} ({}:{:?}): code shown `{}`, expected `{}` (output row {})", hi, h.path, h.number, code, want, ri));
            }
            // JSON: highlighted spans are the reported submatches
            if dialect == Dialect::Json && h.kind == Kind::Match {
                let lead_tabs = h.code.chars().take_while(|c| *c == '\t' || *c == ' ').filter(|c| *c == '\t').count();
                let shift = if tabw > 0 { lead_tabs * (tabw - 1) } else { 0 };
                // expected set of highlighted char positions (in the expanded code)
                let mut want_hl = vec![false; want.chars().count()];
                for (a, b) in &h.submatches {
                    let ca = h.code[..*a].chars().count() + shift;
                    let cb = h.code[..*b].chars().count() + shift;
                    for x in want_hl.iter_mut().take(cb).skip(ca) {
                        *x = true;
                    }
                }
                let got_hl: Vec<bool> = row.cells.iter().filter(|c| is_code_tag(tag(c))).flat_map(|c| std::iter::repeat(tag(c) == Some(Tag::GrepMatchWord)).take(c.text.chars().count())).take(want_hl.len()).collect();
                if got_hl != want_hl {
                    let show = |v: &Vec<bool>| v.iter().map(|b| if *b { '^' } else { '.' }).collect::<String>();
                    return fail("submatches", format!("hit {} ({}:{:?}) `{}`: highlighted {} but the reported submatches are {}", hi, h.path, h.number, want, show(&got_hl), show(&want_hl)));
                }
            }
            hi += 1;
        }
        if hi != hits.len() {
            let h = &hits[hi];
            return fail("missing-hit", format!("{} of {} hits shown; first missing: {}:{:?}:{}", hi, hits.len(), h.path, h.number, h.code));
        }
        let nfiles = { let mut p: Vec<&String> = hits.iter().map(|h| &h.path).collect(); p.dedup(); p.len() };
        let odd = hits.iter().any(|h| h.path.contains(' ') || h.path.split('-').skip(1).any(|s| s.chars().next().map(|c| c.is_ascii_digit()).unwrap_or(false)));
        if nfiles >= 2 && hits.iter().any(|h| h.kind == Kind::Context) && odd {
            let mut h = fnv(&input);
            h = fnv_add(h, &cfg.fingerprint().to_le_bytes());
            ctx.nontrivial(h);
            if ctx.want_sample() {
                ctx.sample(json!({"dialect": format!("{:?}", dialect), "identity": identity, "grep-output-type": out_type, "input": exec::printable(&input[..input.len().min(900)]), "output_visible": term::visible_text(&out).chars().take(900).collect::<String>()}));
            }
        }
        Verdict::Pass
    }
    fn supervisor_phase(&self, _sup: &mut Sup) {}
}
