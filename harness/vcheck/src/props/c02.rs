//! C02 — --color-only is a line-for-line, text-preserving filter (git add -p contract).
use serde_json::json;

use crate::exec;
use crate::gen::color;
use crate::gen::config::{gen_structural, gen_tagged_styles, Cfg, CfgOpts};
use crate::gen::diff::{gen_case, lines_to_bytes, GenOpts, InLine, Role};
use crate::runner::{Ctx, Failure, Prop, Sup, Tier, Verdict};
use crate::tape::{fnv, fnv_add, Tape};
use crate::term;

pub struct C02;

/// options whose explicit setting overrides a preset of the color-only mode or adds text
const OVERRIDES: &[&str] = &["commit-style", "file-style", "hunk-header-style", "tabs", "line-numbers", "keep-plus-minus-markers", "relative-paths", "diff-so-fancy", "features", "raw", "hunk-label"];

fn gen_cfg(t: &mut Tape) -> (Cfg, bool) {
    let mut c = Cfg::new();
    let o = CfgOpts {
        side_by_side: None,
        allow_presets: true,
        allow_hyperlinks: true,
        allow_navigate: true,
        allow_omit: true,
        allow_raw_headers: true,
        allow_color_only: true,
        min_width: 10,
        max_width: 200,
        wide_only: false,
    };
    gen_structural(t, &mut c, &o);
    // lines stay below the maximum line length (truncation is a permitted change outside the claim)
    c.unset("max-line-length");
    match t.weighted(&[3, 2, 3]) {
        0 => {}
        1 => gen_tagged_styles(t, &mut c, &o),
        _ => {
            // a few user styles, decorations and omits
            if t.coin() {
                c.set("file-decoration-style", *t.pick(&["blue ul", "box", "ol ul", "none", "red box ul"]));
            }
            if t.coin() {
                c.set("hunk-header-decoration-style", *t.pick(&["blue box", "ul", "none", "box ul"]));
            }
            if t.coin() {
                c.set("commit-decoration-style", *t.pick(&["bold yellow box ul", "ol", "none"]));
            }
            if t.chance(1, 4) {
                c.set("commit-style", *t.pick(&["omit", "bold yellow", "raw"]));
            }
            if t.chance(1, 4) {
                c.set("file-style", *t.pick(&["omit", "blue", "raw", "yellow box"]));
            }
            if t.chance(1, 4) {
                c.set("hunk-header-style", *t.pick(&["omit", "file line-number syntax", "raw", "syntax"]));
            }
            if t.chance(1, 4) {
                c.set("minus-style", *t.pick(&["red", "normal \"#3f0001\"", "syntax auto", "red bold"]));
                c.set("plus-style", *t.pick(&["green", "syntax \"#002800\"", "syntax auto"]));
            }
        }
    }
    // how color-only is requested
    match t.weighted(&[6, 3, if c.has("features") { 0 } else { 1 }]) {
        0 => c.flag("color-only"),
        2 => {
            // through a custom feature enabled in the main section (`delta --features interactive`
            // is the manual's recipe for interactive.diffFilter; here the feature itself says
            // color-only).  With side-by-side also requested this is the listed finding KF-C02-1.
            let mut g = c.gitconfig.take().unwrap_or_default();
            g.push_str("[delta]\n    features = interactive\n");
            if t.chance(1, 3) {
                g.push_str("    side-by-side = true\n");
            }
            g.push_str("[delta \"interactive\"]\n    color-only = true\n");
            // another builtin feature switched on by a flag in the same section: color-only has
            // the higher priority among them, so the text stays what it was
            if t.chance(1, 3) {
                g.push_str(&format!("    {} = true\n", t.ps(&["diff-so-fancy", "diff-highlight", "navigate", "hyperlinks"])));
            }
            c.gitconfig = Some(g);
        }
        _ => {
            let mut g = c.gitconfig.take().unwrap_or_default();
            g.push_str("[delta]\n    color-only = true\n");
            if t.chance(1, 3) {
                g.push_str("    side-by-side = true\n");
            }
            if t.chance(1, 3) {
                g.push_str(&format!("    {} = true\n", t.ps(&["diff-so-fancy", "diff-highlight", "navigate", "hyperlinks"])));
            }
            c.gitconfig = Some(g);
        }
    }
    let overridden = c.opts.iter().any(|(k, _)| OVERRIDES.contains(&k.as_str()))
        || c.opts.iter().any(|(_, v)| v.as_deref().map(|v| v.split(' ').any(|w| w == "omit")).unwrap_or(false));
    (c, overridden)
}

fn gen_input(t: &mut Tape) -> (Vec<InLine>, bool, bool) {
    let mut o = GenOpts::default_full();
    o.allow_plain = false;
    o.text.allow_long = false;
    o.max_lines = 8;
    let mut case = gen_case(t, &o);
    // commit metadata and diffstat more often than in the other checks
    if t.coin() && !matches!(case.items.first(), Some(crate::gen::diff::Item::Commit(_))) {
        let paths: Vec<String> = case.sections().iter().map(|s| s.new_path.clone()).collect();
        case.items.insert(0, crate::gen::diff::Item::Commit(crate::gen::diff::gen_commit(t, &paths)));
    }
    // diff.submodule = log: a submodule entry has no `diff` line; it stands where a file section
    // would, e.g. directly after a hunk that ends in removed/added lines
    if t.chance(1, 5) {
        let n = t.range(1, 2);
        for _ in 0..n {
            let at = t.below(case.items.len() + 1);
            let h = |t: &mut Tape| format!("{:07x}", t.below(0x0fff_ffff));
            let mut block = vec![match t.below(3) {
                0 => format!("Submodule libs/{} {}..{}:", crate::gen::text::ident(t), h(t), h(t)),
                1 => format!("Submodule {} {}...{} (rewind):", crate::gen::text::ident(t), h(t), h(t)),
                _ => format!("Submodule vendor/{} contains modified content", crate::gen::text::ident(t)),
            }];
            if !block[0].ends_with("content") {
                for _ in 0..t.range(1, 3) {
                    block.push(format!("  {} {}", t.ps(&[">", "<"]), crate::gen::text::ident(t)));
                }
            }
            case.items.insert(at, crate::gen::diff::Item::Free(block));
        }
    }
    let mut lines = case.render();
    // (git hands interactive.diffFilter whole file diffs including their headers)
    let colored = t.chance(3, 5);
    if colored {
        let co = color::gen_opts(t);
        lines = color::colorize(&lines, &co);
    }
    (lines, colored, case.final_newline)
}

impl Prop for C02 {
    fn id(&self) -> &'static str {
        "C02"
    }
    fn cases(&self, tier: Tier) -> usize {
        match tier {
            Tier::Quick => 12_000,
            Tier::Thorough => 300_000,
        }
    }
    fn tape_len(&self, _t: Tier) -> usize {
        3000
    }
    fn rule(&self) -> String {
        "cases = `git log -p`/`show`/`diff`/`add -p`-shaped stream (commit metadata, diffstat, every file event, submodules, binary, combined incl. conflict-marker-like lines, `\\ No newline`), plain or coloured with git's default palette; final line with/without newline x option set in which color-only is given (flag, key in the main gitconfig section, or key in a custom feature enabled there) together with anything else (side-by-side, line numbers, decorations, omit styles, navigate, hyperlinks, presets, widths, tabs, markers, themes). Oracle: (1) always: number of output lines == number of input lines; (2) unless an option that color-only presets or that adds text is set explicitly (decided syntactically from the generated options): visible text of output line i == visible text of input line i (independent terminal model on both sides). Non-trivial = input has a commit line, a file header and a hunk, and the option set has >=1 structural option besides color-only; distinct by hash of (input, argv, gitconfig).".to_string()
    }
    fn assumptions(&self) -> Vec<String> {
        vec![
            "terminal model for visible text; OSC 8 hyperlinks ignored".to_string(),
            "lines stay below max-line-length (truncation is outside the claim)".to_string(),
            "override rule errs on the side of the statement's exception: an option set naming commit/file/hunk-header styles, tabs, line-numbers, markers, relative-paths, a header-restyling preset, --raw or an omit style is held to the line count only".to_string(),
        ]
    }
    fn needs_binary(&self) -> bool {
        true
    }
    fn check(&self, t: &mut Tape, ctx: &mut Ctx) -> Verdict {
        let (cfg, overridden) = gen_cfg(t);
        let (lines, colored, final_nl) = gen_input(t);
        let input = lines_to_bytes(&lines, final_nl);
        ctx.class_if(colored, "coloured-input");
        ctx.class_if(overridden, "preset-overridden(count-only)");
        ctx.class_if(cfg.has("side-by-side"), "side-by-side-requested");
        ctx.class_if(cfg.gitconfig.is_some(), "color-only-from-gitconfig");
        ctx.class_if(!final_nl, "no-final-newline");
        let out = match exec::run_cfg(&cfg, ctx, &input) {
            Ok(o) => o,
            Err(mut f) => {
                f.detail = json!({"case": exec::case_json(&cfg, &input)});
                f.traits = crate::props::c03::failure_traits(&cfg, &input);
                return Verdict::Fail(f);
            }
        };
        let in_rows = term::decode(&input);
        let out_rows = term::decode(&out);
        let detail = |cfg: &Cfg| json!({"case": exec::case_json(cfg, &input), "output_printable": exec::printable(&out[..out.len().min(6000)])});
        if in_rows.rows.len() != out_rows.rows.len() {
            // find the first line where the texts stop corresponding, for the message
            let i = in_rows.rows.iter().zip(out_rows.rows.iter()).position(|(a, b)| a.text().trim_end() != b.text().trim_end()).unwrap_or(in_rows.rows.len().min(out_rows.rows.len()));
            return Verdict::Fail(
                Failure::new("C02:line-count", format!("{} input lines but {} output lines; correspondence is lost at line {} (input `{}`)", in_rows.rows.len(), out_rows.rows.len(), i + 1, in_rows.rows.get(i).map(|r| r.text()).unwrap_or_default()))
                    .with(detail(&cfg)),
            );
        }
        if !overridden {
            for (i, (a, b)) in in_rows.rows.iter().zip(out_rows.rows.iter()).enumerate() {
                let (ta, tb) = (a.text(), b.text());
                // delta may right-pad a background-coloured line with blanks (fill)
                let ok = ta == tb || (tb.starts_with(&ta) && tb[ta.len()..].chars().all(|c| c == ' '));
                if !ok {
                    let mut f = Failure::new("C02:text", format!("line {}: input shows `{}` but output shows `{}`", i + 1, ta, tb)).with(detail(&cfg));
                    let g = cfg.gitconfig.clone().unwrap_or_default();
                    if g.contains("[delta \"interactive\"]") && (cfg.has("side-by-side") || g.contains("side-by-side = true")) {
                        f.traits.push("color-only-from-custom-feature+side-by-side".to_string());
                    }
                    return Verdict::Fail(f);
                }
            }
        }
        let has = |f: &dyn Fn(&Role) -> bool| lines.iter().any(|l| f(&l.role));
        let structural = cfg.opts.iter().filter(|(k, _)| !k.ends_with("-style") && k != "color-only" && k != "dark" && k != "light" && k != "true-color").count();
        if has(&|r| matches!(r, Role::CommitLine)) && has(&|r| matches!(r, Role::DiffLine { .. })) && has(&|r| matches!(r, Role::Hunk { .. })) && structural >= 1 {
            let mut h = fnv(&input);
            h = fnv_add(h, &cfg.fingerprint().to_le_bytes());
            ctx.nontrivial(h);
            if ctx.want_sample() {
                ctx.sample(json!({"argv": cfg.base_args(), "gitconfig": cfg.gitconfig, "coloured": colored, "text_checked": !overridden, "input": exec::printable(&input[..input.len().min(1200)])}));
            }
        }
        if ctx.want_xcheck() && cfg.gitconfig.is_none() && cfg.env.current_dir.is_none() {
            ctx.xchecks.push(json!({"argv": cfg.args(None), "env": exec::env_from_spec(&cfg.env), "cwd": cfg.env.current_dir,
                "identity": ctx.identity, "input_hex": exec::hex(&input), "out_hash": format!("{:016x}", fnv(&out))}));
        }
        Verdict::Pass
    }
    fn supervisor_phase(&self, sup: &mut Sup) {
        crate::xcheck::binary_crosscheck(sup, false);
    }
}
