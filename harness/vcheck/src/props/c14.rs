//! C14 — one header per file section (right file, right event) and one per hunk.
use serde_json::json;

use crate::exec;
use crate::gen::config::{gen_tagged_cfg, Cfg, CfgOpts, Tag};
use crate::gen::diff::{gen_plain_case, gen_section_of_kind, DiffCase, GenOpts, Item, Section, SK};
use crate::props::c10::KINDS;
use crate::rows::{self, RowKind};
use crate::runner::{Ctx, Failure, Prop, Sup, Tier, Verdict};
use crate::tape::{fnv, fnv_add, Tape};
use crate::term;

pub struct C14;

struct Labels {
    modified: String,
    added: String,
    removed: String,
    renamed: String,
    copied: String,
    arrow: String,
    hunk: String,
}

fn gen(t: &mut Tape) -> (DiffCase, Cfg, Labels) {
    let mut o = GenOpts::default_full();
    o.max_hunks = 3;
    o.max_lines = 6;
    // (merge-conflict regions in combined diffs, also as the very first lines of a hunk)
    o.allow_conflict = true;
    let plain = t.chance(1, 10);
    let case = if plain {
        let mut c = gen_plain_case(t, &o);
        // `diff -r` reports a binary file with a bare `Binary files a/y and b/y differ` line
        // (no `diff` line in front of it), before, between or after the text files
        if t.coin() {
            let at = t.below(c.items.len() + 1);
            let name = format!("bin_{}.png", t.below(90) + 10);
            c.items.insert(at, Item::Free(vec![format!("Binary files a/{} and b/{} differ", name, name)]));
        }
        c
    } else {
        let n = t.range(1, 6);
        let mut items = Vec::new();
        for _ in 0..n {
            let k = if t.chance(1, 10) { SK::Combined } else { *t.pick(KINDS) };
            let mut s = gen_section_of_kind(t, &o, k);
            if k == SK::Combined {
                for h in s.hunks.iter_mut() {
                    for l in h.lines.iter_mut() {
                        if ["<<<<<<<", "=======", ">>>>>>>", "|||||||"].iter().any(|m| l.text.starts_with(m)) {
                            l.text = format!("x {}", l.text);
                        }
                    }
                }
            }
            // `git log -p`: a commit block in front of some sections
            if t.chance(1, 5) {
                items.push(Item::Commit(crate::gen::diff::gen_commit(t, &[])));
            }
            // git's default core.quotePath: names with bytes outside ASCII are written quoted, with
            // octal escapes, in every header line of the section
            if !s.new_path.is_ascii() || !s.old_path.is_ascii() {
                if t.chance(1, 2) {
                    crate::gen::diff::quote_paths(&mut s);
                }
            }
            items.push(Item::Section(s));
            // `git diff --submodule=log`: an entry for a changed submodule stands between file
            // sections without a "diff" line of its own
            if t.chance(1, 8) {
                let name = format!("sub_{}", t.below(90) + 10);
                let mut ls = vec![format!("Submodule {} {}..{}:", name, crate::gen::text::hex(t, 7), crate::gen::text::hex(t, 7))];
                for _ in 0..t.range(0, 2) {
                    ls.push(format!("  > {}", crate::gen::text::ident(t)));
                }
                items.push(Item::Free(ls));
            }
        }
        DiffCase { items, final_newline: !t.chance(1, 10) }
    };
    let mut co = CfgOpts::unified();
    co.side_by_side = None;
    co.allow_presets = false; // presets restyle headers; labels/styles below come from the command line anyway
    let mut cfg = gen_tagged_cfg(t, &co);
    cfg.unset("relative-paths");
    cfg.unset("navigate");
    // `git -C sub diff` with --relative-paths: the headers name the files relative to the user's
    // directory (GIT_PREFIX), `../` included
    if !plain && t.chance(1, 5) {
        cfg.flag("relative-paths");
        cfg.env.git_prefix = Some(t.ps(&["src/", "docs/x/", "test/", "a/b/", "dir/", "lib/tests/"]).to_string());
        cfg.env.current_dir = Some("/work/repo".to_string());
        // (a *file* whose path is a leading part of the user's directory cannot exist)
        let pre = cfg.env.git_prefix.clone().unwrap_or_default();
        if case.sections().iter().any(|s| pre.starts_with(&format!("{}/", s.old_path)) || pre.starts_with(&format!("{}/", s.new_path))) {
            cfg.unset("relative-paths");
            cfg.env.git_prefix = None;
        }
    }
    let l = Labels {
        modified: t.ps(&["", "MOD:", "Δ", "modified"]).to_string(),
        added: t.ps(&["ADDED:", "new", "added:"]).to_string(),
        removed: t.ps(&["REMOVED:", "gone", "removed:"]).to_string(),
        renamed: t.ps(&["RENAMED:", "mv", "renamed:"]).to_string(),
        copied: t.ps(&["COPIED:", "cp", "copied:"]).to_string(),
        arrow: t.ps(&["⟶  ", "->", " => ", "»"]).to_string(),
        hunk: t.ps(&["", "", "§", "hunk"]).to_string(),
    };
    cfg.set("file-modified-label", &l.modified);
    cfg.set("file-added-label", &l.added);
    cfg.set("file-removed-label", &l.removed);
    cfg.set("file-renamed-label", &l.renamed);
    cfg.set("file-copied-label", &l.copied);
    cfg.set("right-arrow", &l.arrow);
    cfg.set("hunk-label", &l.hunk);
    crate::gen::config::keep_headers_intact(&mut cfg, &case.render());
    // a truncated submodule line is no submodule line any more
    if case.sections().iter().any(|s| s.kind == SK::SubmoduleShort) {
        if let Some(m) = cfg.get("max-line-length").and_then(|v| v.parse::<usize>().ok()) {
            if m > 0 && m < 80 {
                cfg.set("max-line-length", "80");
            }
        }
    }
    // hunk lines may still be truncated; that does not concern headers
    (case, cfg, l)
}

fn fragment_expected(frag: &str, cfg: &Cfg) -> String {
    rows::expand_tabs(frag, rows::tab_width(cfg)).trim().to_string()
}

fn check_file_header(s: &Section, text: &str, l: &Labels, cfg: &Cfg) -> Result<(), String> {
    let has = |needle: &str| needle.is_empty() || text.contains(needle);
    let pos = |needle: &str| text.find(needle);
    let _ = cfg;
    match s.kind {
        SK::PlainDiffU => {
            // "comparing" form: old ⟶ new
            if !(has(&s.old_path) && has(&s.new_path)) {
                return Err(format!("plain diff header must name `{}` and `{}`", s.old_path, s.new_path));
            }
            match (pos(&s.old_path), text.rfind(&s.new_path)) {
                (Some(a), Some(b)) if a <= b => {}
                _ => return Err("old path must come before new path".to_string()),
            }
        }
        SK::RenamedPure | SK::RenamedChanged | SK::CopiedPure | SK::CopiedChanged | SK::RenamedBinary | SK::CopiedBinary => {
            let label = if matches!(s.kind, SK::RenamedPure | SK::RenamedChanged | SK::RenamedBinary) { &l.renamed } else { &l.copied };
            if !has(label) {
                return Err(format!("label `{}` missing", label));
            }
            let (a, b) = (pos(&s.old_path), text.rfind(&s.new_path));
            match (a, b) {
                (Some(a), Some(b)) if a < b => {}
                _ => return Err(format!("must name old path `{}` then new path `{}`", s.old_path, s.new_path)),
            }
            if !has(l.arrow.trim()) {
                return Err(format!("arrow `{}` missing", l.arrow));
            }
        }
        SK::Added | SK::BinaryAdded | SK::EmptyNew => {
            if !has(&s.new_path) {
                return Err(format!("path `{}` missing", s.new_path));
            }
            if !has(&l.added) {
                return Err(format!("added-file label `{}` missing", l.added));
            }
        }
        SK::Deleted | SK::BinaryDeleted | SK::EmptyDeleted => {
            if !has(&s.old_path) {
                return Err(format!("path `{}` missing", s.old_path));
            }
            if !has(&l.removed) {
                return Err(format!("removed-file label `{}` missing", l.removed));
            }
        }
        _ => {
            if !has(&s.new_path) {
                return Err(format!("path `{}` missing", s.new_path));
            }
            if !has(&l.modified) {
                return Err(format!("modified-file label `{}` missing", l.modified));
            }
        }
    }
    if matches!(s.kind, SK::BinaryModified | SK::BinaryAdded | SK::BinaryDeleted | SK::RenamedBinary | SK::CopiedBinary) && !text.contains("binary") {
        return Err(BINARY_NOT_REPORTED.to_string());
    }
    if matches!(s.kind, SK::ModeOnly | SK::ModeChanged) {
        let ok = match (s.old_mode.as_str(), s.new_mode.as_str()) {
            ("100644", "100755") => text.contains("+x"),
            ("100755", "100644") => text.contains("-x"),
            (a, b) => text.contains(a) && text.contains(b),
        };
        if !ok {
            return Err(format!("mode change {} -> {} not reported", s.old_mode, s.new_mode));
        }
    }
    Ok(())
}

const BINARY_NOT_REPORTED: &str = "binary file not reported";

/// `path` (relative to the repository root) as seen from the directory `prefix` (also relative to
/// the root): common leading components dropped, one `..` per remaining component of `prefix`
fn relative_to(path: &str, prefix: &str) -> String {
    if path == "/dev/null" {
        return path.to_string();
    }
    let p: Vec<&str> = path.split('/').filter(|c| !c.is_empty()).collect();
    let b: Vec<&str> = prefix.split('/').filter(|c| !c.is_empty()).collect();
    let mut k = 0;
    while k < p.len().saturating_sub(1) && k < b.len() && p[k] == b[k] {
        k += 1;
    }
    let mut out: Vec<&str> = vec![".."; b.len() - k];
    out.extend(&p[k..]);
    out.join("/")
}

fn evaluate(case: &DiffCase, cfg: &Cfg, l: &Labels, out: &[u8]) -> Result<(), Failure> {
    // A header that lacks only the word `binary` is remembered and reported last, so that a
    // structural failure (duplicate, missing or misplaced header) in the same case comes first.
    let mut deferred: Option<Failure> = None;
    let secs_in = case.sections();
    // what the headers must show: the paths as given, or relative to GIT_PREFIX under --relative-paths
    let shown: Vec<Section> = secs_in
        .iter()
        .map(|s| {
            let mut d = (*s).clone();
            if let (true, Some(pre)) = (cfg.has("relative-paths"), cfg.env.git_prefix.as_deref()) {
                d.old_path = relative_to(&d.old_path, pre);
                d.new_path = relative_to(&d.new_path, pre);
            }
            d
        })
        .collect();
    let secs: Vec<&Section> = shown.iter().collect();
    let sc = term::decode(out);
    let crows = rows::classify_all(&sc);
    let file_omitted = cfg.get("file-style") == Some("omit");
    let hh = cfg.get("hunk-header-style").unwrap_or("");
    let hh_omit = hh.split(' ').any(|w| w == "omit");
    let hh_words: Vec<&str> = hh.split(' ').collect();
    let hh_file = hh_words.contains(&"file");
    let hh_ln = hh_words.contains(&"line-number");
    let hh_nofrag = hh_words.contains(&"omit-code-fragment");
    let fail = |sig: &str, msg: String| Failure::new(format!("C14:{}", sig), msg);

    // expected events
    #[derive(Debug)]
    enum Ev {
        File(usize),
        Hunk(usize, usize),
        /// a `Submodule <name> a..b:` entry
        Sub(String),
    }
    let mut evs: Vec<Ev> = Vec::new();
    let mut si = 0usize;
    for it in &case.items {
        let s = match it {
            Item::Section(_) => secs[si],
            Item::Free(ls) => {
                // a submodule entry is written like a file header, in its place in the stream
                if let Some(name) = ls.first().and_then(|l| l.strip_prefix("Submodule ")) {
                    if !file_omitted {
                        evs.push(Ev::Sub(name.split(' ').next().unwrap_or("").to_string()));
                    }
                }
                continue;
            }
            _ => continue,
        };
        if !file_omitted {
            evs.push(Ev::File(si));
        }
        si += 1;
        let si = si - 1;
        if s.kind == SK::SubmoduleShort {
            continue; // summarised: no hunk header by design
        }
        for (hi, h) in s.hunks.iter().enumerate() {
            let frag_shown = !hh_nofrag && !h.fragment.is_empty();
            if !hh_omit && (frag_shown || hh_file || hh_ln) {
                evs.push(Ev::Hunk(si, hi));
            }
        }
    }
    // Where a header stands: in the unified view of two-way sections every hunk line is one content
    // row, so when the header of section j is written, the rows of all earlier sections' lines must
    // be out already (counted over lines with visible text; a conflict region, a combined diff or a
    // summarised submodule section changes the row count and switches the count off).
    let countable = !cfg.has("side-by-side") && secs.iter().all(|s| !matches!(s.kind, SK::Combined | SK::SubmoduleShort) && s.hunks.iter().all(|h| h.conflict.is_none()));
    let lines_before: Vec<usize> = {
        let mut acc = 0usize;
        secs.iter()
            .map(|s| {
                let here = acc;
                acc += s.hunks.iter().map(|h| h.lines.iter().filter(|l| !l.text.trim().is_empty()).count()).sum::<usize>();
                here
            })
            .collect()
    };
    let mut content_rows = 0usize;
    let mut next = 0usize;
    for (ri, cr) in crows.iter().enumerate() {
        match cr.kind {
            RowKind::FileHeader => {
                let text = cr.row.text();
                match evs.get(next) {
                    Some(Ev::Sub(name)) => {
                        if !text.contains(&format!("Submodule {} ", name)) || text.contains("(mode") {
                            return Err(fail("submodule-entry", format!("expected the entry of submodule `{}` (and nothing of another section) at output row {}; the row shows `{}`", name, ri, text.trim())));
                        }
                        next += 1;
                    }
                    Some(Ev::File(si)) => {
                        if countable && content_rows < lines_before[*si] {
                            return Err(fail("file-header-before-previous-lines", format!("the file header of section {} (`{}`) is written at output row {} when only {} of the {} hunk lines of the sections before it have been shown: the rest would appear under the wrong file", si, text.trim(), ri, content_rows, lines_before[*si])));
                        }
                        if let Err(m) = check_file_header(secs[*si], &text, l, cfg) {
                            if m == BINARY_NOT_REPORTED {
                                if deferred.is_none() {
                                    deferred = Some(fail(&format!("binary-not-reported:{}", secs[*si].kind.name()), format!("file header of section {} ({}: {} -> {}) shows `{}`: the file is binary (`Binary files ... differ`) but the header does not say so (output row {})", si, secs[*si].kind.name(), secs[*si].old_path, secs[*si].new_path, text.trim(), ri)));
                                }
                                next += 1;
                                continue;
                            }
                            return Err(fail("file-header-content", format!("file header of section {} ({}: {} -> {}) shows `{}`: {} (output row {})", si, secs[*si].kind.name(), secs[*si].old_path, secs[*si].new_path, text.trim(), m, ri)));
                        }
                        next += 1;
                    }
                    other => {
                        return Err(fail("file-header-unexpected", format!("a file header `{}` appears at output row {} where {:?} was expected (duplicate or misplaced header)", text.trim(), ri, other)));
                    }
                }
            }
            RowKind::HunkHeader => {
                match evs.get(next) {
                    Some(Ev::Hunk(si, hi)) => {
                        let s = secs[*si];
                        let h = &s.hunks[*hi];
                        // fragment = text of the cells painted with hunk-header-style
                        let frag: String = cr.row.cells.iter().filter(|c| Tag::from_color(c.st.bg) == Some(Tag::HunkHeader)).map(|c| c.text.as_str()).collect();
                        if !hh_nofrag {
                            let want = fragment_expected(&h.fragment, cfg);
                            if frag.trim() != want {
                                return Err(fail("fragment", format!("hunk header of section {} hunk {} shows code fragment `{}` but git supplied `{}` (output row {})", si, hi, frag.trim(), want, ri)));
                            }
                        }
                        if hh_file {
                            let f: String = cr.row.cells.iter().filter(|c| Tag::from_color(c.st.bg) == Some(Tag::HunkHeaderFile)).map(|c| c.text.as_str()).collect();
                            let want = if matches!(s.kind, SK::Deleted | SK::BinaryDeleted | SK::EmptyDeleted) { &s.old_path } else { &s.new_path };
                            if !f.contains(want.as_str()) {
                                return Err(fail("hunk-header-file", format!("hunk header of section {} hunk {} names `{}`, expected the path `{}` (output row {})", si, hi, f.trim(), want, ri)));
                            }
                        }
                        if hh_ln && s.kind != SK::Combined {
                            let n: String = cr.row.cells.iter().filter(|c| Tag::from_color(c.st.bg) == Some(Tag::HunkHeaderLn)).map(|c| c.text.as_str()).collect();
                            if n.trim() != h.new_start.to_string() {
                                return Err(fail("hunk-header-line-number", format!("hunk header of section {} hunk {} shows line `{}`, the hunk starts at new-file line {} (output row {})", si, hi, n.trim(), h.new_start, ri)));
                            }
                        }
                        next += 1;
                    }
                    other => {
                        return Err(fail("hunk-header-unexpected", format!("a hunk header `{}` appears at output row {} where {:?} was expected", cr.row.text().trim(), ri, other)));
                    }
                }
            }
            RowKind::Minus | RowKind::Plus | RowKind::Zero | RowKind::Mixed => {
                if !rows::text_without_gutter(cr.row).trim().is_empty() {
                    content_rows += 1;
                }
                // content may only appear once its section's file header (and hunk header) is out
                if let Some(Ev::File(si)) = evs.get(next) {
                    // content before the header of the next section is fine only if it belongs
                    // to the previous one: at least one header must have been seen
                    if next == 0 && !file_omitted {
                        return Err(fail("content-before-header", format!("hunk content `{}` appears before the first file header (section {}) at output row {}", rows::text_without_gutter(cr.row), si, ri)));
                    }
                }
            }
            _ => {}
        }
    }
    if next != evs.len() {
        return Err(fail("header-missing", format!("{} of {} expected headers were shown; first missing: {:?} ({})", next, evs.len(), evs[next], match &evs[next] { Ev::File(si) | Ev::Hunk(si, _) => format!("{} {}", secs[*si].kind.name(), secs[*si].new_path), Ev::Sub(n) => format!("submodule entry {}", n) })));
    }
    // binary files of a plain `diff -r` stream must be reported too
    let vis = term::visible_text(out);
    for it in &case.items {
        if let Item::Free(ls) = it {
            for l in ls {
                if let Some(rest) = l.strip_prefix("Binary files a/") {
                    let name = rest.split(' ').next().unwrap_or("");
                    if !vis.lines().any(|o| o.contains(name) && (o.contains("inary"))) {
                        return Err(fail("binary-not-reported:plain-diff", format!("the input line `{}` (diff -r) is not reflected in the output: no line names `{}` as a binary file", l, name)));
                    }
                }
            }
        }
    }
    if let Some(f) = deferred {
        return Err(f);
    }
    Ok(())
}

impl Prop for C14 {
    fn id(&self) -> &'static str {
        "C14"
    }
    fn cases(&self, tier: Tier) -> usize {
        match tier {
            Tier::Quick => 14_000,
            Tier::Thorough => 300_000,
        }
    }
    fn tape_len(&self, _t: Tier) -> usize {
        2500
    }
    fn rule(&self) -> String {
        "cases = 1-6 git file sections of every kind (plus combined; or a plain diff -u stream) over the full path grammar (spaces, non-ASCII, dashes/digits/dots, mnemonic prefixes, /dev/null sides) x tagged option set (unified or side-by-side) with unique label/arrow/hunk-label tokens, decoration styles incl. omit, every hunk-header word subset. Oracle: the rows tagged file-style are, in order, exactly one per section and contain the path(s) (old then new for rename/copy), the configured label of the event, mode change, `binary`; the rows tagged hunk-header-style are exactly one per hunk that has something to show, carry git's code fragment (tabs expanded, outer blanks ignored), the section's path and the new-file start when requested. Non-trivial = >=1 rename/copy/mode/binary section and >=1 path with a space or non-ASCII; distinct by hash of (input, argv).".to_string()
    }
    fn assumptions(&self) -> Vec<String> {
        vec![
            "containment, not string equality: restyled decorations do not alarm".to_string(),
            "git-quoted paths (core.quotepath escapes) are not generated; --relative-paths and --navigate are left to C19/C10".to_string(),
            "submodule (short) hunks are summarised by design: no hunk header expected there".to_string(),
        ]
    }
    fn needs_binary(&self) -> bool {
        true
    }
    fn check(&self, t: &mut Tape, ctx: &mut Ctx) -> Verdict {
        let (case, cfg, labels) = gen(t);
        let input = case.bytes();
        for s in case.sections() {
            ctx.class(s.kind.name());
        }
        ctx.class_if(cfg.has("side-by-side"), "side-by-side");
        let out = match exec::run_cfg(&cfg, ctx, &input) {
            Ok(o) => o,
            Err(mut f) => {
                f.detail = json!({"case": exec::case_json(&cfg, &input)});
                f.traits = crate::props::c03::failure_traits(&cfg, &input);
                return Verdict::Fail(f);
            }
        };
        match evaluate(&case, &cfg, &labels, &out) {
            Ok(()) => {
                let secs = case.sections();
                let special = secs.iter().any(|s| matches!(s.kind, SK::RenamedPure | SK::RenamedChanged | SK::CopiedPure | SK::CopiedChanged | SK::ModeOnly | SK::ModeChanged | SK::BinaryModified | SK::BinaryAdded | SK::BinaryDeleted | SK::RenamedBinary | SK::CopiedBinary));
                let odd_path = secs.iter().any(|s| s.new_path.contains(' ') || !s.new_path.is_ascii() || s.old_path.contains(' ') || !s.old_path.is_ascii());
                if special && odd_path {
                    let mut h = fnv(&input);
                    h = fnv_add(h, &cfg.fingerprint().to_le_bytes());
                    ctx.nontrivial(h);
                    if ctx.want_sample() {
                        ctx.sample(json!({"argv": cfg.base_args(), "input": exec::printable(&input[..input.len().min(1500)]), "output_visible": term::visible_text(&out).chars().take(1500).collect::<String>()}));
                    }
                }
                if ctx.want_xcheck() && cfg.gitconfig.is_none() && cfg.env.current_dir.is_none() {
                    ctx.xchecks.push(json!({"argv": cfg.args(None), "env": exec::env_from_spec(&cfg.env), "cwd": cfg.env.current_dir,
                        "identity": ctx.identity, "input_hex": exec::hex(&input), "out_hash": format!("{:016x}", fnv(&out))}));
                }
                Verdict::Pass
            }
            Err(mut f) => {
                f.detail = json!({"case": exec::case_json(&cfg, &input), "output_printable": exec::printable(&out[..out.len().min(6000)])});
                let secs = case.sections();
                if f.signature == "C14:binary-not-reported:renamed-binary" || f.signature == "C14:binary-not-reported:copied-binary" {
                    f.traits.push("renamed-or-copied-binary-section".to_string());
                }
                if secs.windows(2).any(|w| w[0].kind == SK::PlainDiffU && w[1].kind == SK::PlainDiffU && w[0].old_path == w[1].old_path && w[0].new_path == w[1].new_path) {
                    f.traits.push("plain-diff-same-pair-twice".to_string());
                }
                Verdict::Fail(f)
            }
        }
    }
    fn supervisor_phase(&self, sup: &mut Sup) {
        crate::xcheck::binary_crosscheck(sup, false);
    }
}
