//! C01 — every hunk line is shown exactly once, in order, with its text intact (unified view).
use serde_json::json;

use crate::exec;
use crate::gen::config::{gen_tagged_cfg, Cfg, CfgOpts};
use crate::gen::diff::{gen_case, gen_plain_case, DiffCase, GenOpts, Item, Role, SK};
use crate::rows::{self, RowKind};
use crate::runner::{Ctx, Failure, Prop, Sup, Tier, Verdict};
use crate::tape::{fnv, fnv_add, Tape};
use crate::term;

pub struct C01;

pub fn gen(t: &mut Tape, tier: Tier) -> (DiffCase, Cfg) {
    let mut o = GenOpts::default_full();
    o.allow_conflict = true;
    if tier == Tier::Thorough {
        o.max_items = 8;
        o.max_hunks = 4;
        o.max_lines = 30;
    }
    let mut case = if t.chance(1, 8) { gen_plain_case(t, &o) } else { gen_case(t, &o) };
    // submodule (short) hunks are summarised by design: not part of this claim (C14 covers them)
    case.items.retain(|it| !matches!(it, Item::Section(s) if s.kind == SK::SubmoduleShort));
    if case.items.is_empty() {
        case.items.push(Item::Section(crate::gen::diff::gen_section_of_kind(t, &o, SK::Modified)));
    }
    // git's default core.quotePath: names with bytes outside ASCII are written quoted, with octal escapes
    if t.chance(1, 3) {
        for it in case.items.iter_mut() {
            if let Item::Section(s) = it {
                if !s.new_path.is_ascii() || !s.old_path.is_ascii() {
                    crate::gen::diff::quote_paths(s);
                }
            }
        }
    }
    let mut co = CfgOpts::unified();
    co.allow_hyperlinks = false; // hyperlinks are C19's; they do not change visible text
    let mut cfg = gen_tagged_cfg(t, &co);
    // this property is about the unified view without explicit raw/omit of hunk lines
    cfg.unset("side-by-side");
    // delta's default for commit lines (raw style, no decoration): the line is not handled by the
    // commit handler at all but falls through to the catch-all, which has its own flushing to do
    if t.fork(7).chance(1, 5) {
        cfg.set("commit-style", "raw");
        cfg.set("commit-decoration-style", t.fork(8).ps(&["none", ""]));
    }
    // conflict markers inside a combined diff open a merge-conflict region (not generated yet)
    for it in case.items.iter_mut() {
        if let Item::Section(s) = it {
            if s.kind == SK::Combined {
                for h in s.hunks.iter_mut() {
                    for l in h.lines.iter_mut() {
                        if ["<<<<<<<", "=======", ">>>>>>>", "|||||||"].iter().any(|m| l.text.starts_with(m)) {
                            l.text = format!("x {}", l.text);
                        }
                    }
                }
            }
        }
    }
    // A maximum line length shorter than a header line destroys the construct markers
    // themselves; keep it above every non-hunk line (hunk lines may exceed it: truncation
    // with a mark is part of the claim).
    if let Some(m) = cfg.get("max-line-length").and_then(|v| v.parse::<usize>().ok()) {
        if m > 0 {
            let longest = case.render().iter().filter(|l| !matches!(l.role, Role::Hunk { .. })).map(|l| l.text.len()).max().unwrap_or(0);
            if longest >= m {
                cfg.set("max-line-length", &(longest + 1).to_string());
            }
        }
    }
    (case, cfg)
}

struct Expect {
    sec: usize,
    hunk: usize,
    idx: usize,
    kind: RowKind,
    text: String,
    raw_len: usize,
}

pub fn evaluate(case: &DiffCase, cfg: &Cfg, out: &[u8], ctx: &mut Ctx) -> Result<bool, Failure> {
    let lines = case.render();
    let secs = case.sections();
    // expected content lines
    let mut exp: Vec<Expect> = Vec::new();
    for l in &lines {
        // a merge-conflict region is shown as two comparisons against the common ancestor:
        // base lines (as removed) then our lines (as added); base lines then their lines
        if let Role::Conflict { sec, hunk, part: 0, .. } = &l.role {
            if l.text.starts_with("++>>>>>>>") {
                let c = secs[*sec].hunks[*hunk].conflict.as_ref().expect("conflict");
                for side in [&c.ours, &c.theirs] {
                    for (kind, ls) in [(RowKind::Minus, &c.base), (RowKind::Plus, side)] {
                        for (i, hl) in ls.iter().enumerate() {
                            // (inside a conflict region the prefix columns are not shown; with
                            // keep-plus-minus-markers a single -/+ says which side of the comparison)
                            let body = rows::expand_tabs(&hl.text, rows::tab_width(cfg));
                            let text = if cfg.has("keep-plus-minus-markers") { format!("{}{}", if kind == RowKind::Minus { "-" } else { "+" }, body) } else { body };
                            exp.push(Expect { sec: *sec, hunk: *hunk, idx: 1000 + i, kind, text, raw_len: hl.prefix.len() + hl.text.len() });
                        }
                    }
                }
            }
            continue;
        }
        if let Role::Hunk { sec, hunk, idx, kind } = &l.role {
            let s = secs[*sec];
            if s.kind == SK::SubmoduleShort {
                continue;
            }
            let hl = &s.hunks[*hunk].lines[*idx];
            exp.push(Expect {
                sec: *sec,
                hunk: *hunk,
                idx: *idx,
                kind: rows::kind_of(*kind),
                text: rows::expected_unified_text(hl, cfg, s.kind == SK::Combined),
                raw_len: l.text.len(),
            });
        }
    }
    let sc = term::decode(out);
    let crows = rows::classify_all(&sc);
    let file_omitted = cfg.get("file-style") == Some("omit");
    let mll = rows::max_line_length(cfg);
    // commit headers: (hash, number of hunk lines that belong to the sections in front of it);
    // none of those lines may be shown after the row naming that commit ("moved past a header")
    let mut commit_bounds: Vec<(String, usize)> = Vec::new();
    {
        let mut nsec = 0usize;
        for it in &case.items {
            match it {
                Item::Section(_) => nsec += 1,
                Item::Commit(c) => commit_bounds.push((c.hash.clone(), exp.iter().filter(|e| e.sec < nsec).count())),
                _ => {}
            }
        }
    }
    // Without background fill (--width variable) an empty removed/added/unchanged line is just
    // an empty row without any tag; such rows are counted and may stand for expected empty lines.
    let lenient_blank = cfg.get("width") == Some("variable") && !cfg.has("keep-plus-minus-markers");
    let lenient_blank = lenient_blank
        && !sc.rows.iter().any(|r| r.cells.iter().any(|c| crate::gen::config::Tag::from_color(c.st.bg).map(|t| t.is_gutter()).unwrap_or(false)));
    let has_gutter = |r: &crate::term::Row| r.cells.iter().any(|c| crate::gen::config::Tag::from_color(c.st.bg).map(|t| t.is_gutter()).unwrap_or(false));
    let mut blank_budget = 0usize;
    let mut next = 0usize; // next expected content line
    let mut cur_sec: Option<usize> = None; // section named by the last file header row
    let mut interesting = false;
    let fail = |sig: &str, msg: String, rowno: usize| -> Failure {
        Failure::new(format!("C01:{}", sig), format!("{} (output row {})", msg, rowno))
    };
    for (ri, cr) in crows.iter().enumerate() {
        if !commit_bounds.is_empty() && !matches!(cr.kind, RowKind::Minus | RowKind::Plus | RowKind::Zero | RowKind::Mixed) {
            let txt = cr.row.text();
            if let Some((h, bound)) = commit_bounds.iter().find(|(h, _)| txt.contains(h.as_str())) {
                if let Some(e) = exp[next.min(exp.len())..(*bound).max(next).min(exp.len())].iter().find(|e| !(lenient_blank && e.text.is_empty())) {
                    return Err(fail(
                        "moved-past-commit-header",
                        format!("the header of commit {} is shown before {:?} line `{}` (section {}, hunk {}, line {}) of the commit in front of it", &h[..8], e.kind, e.text, e.sec, e.hunk, e.idx),
                        ri,
                    ));
                }
            }
        }
        match cr.kind {
            RowKind::FileHeader => {
                let txt = cr.row.text();
                let start = cur_sec.map(|c| c + 1).unwrap_or(0);
                if let Some(j) = (start..secs.len()).find(|j| txt.contains(&secs[*j].new_path) || txt.contains(&secs[*j].old_path)) {
                    cur_sec = Some(j);
                }
            }
            RowKind::Minus | RowKind::Plus | RowKind::Zero | RowKind::Mixed => {
                // submodule summary rows carry both tags and are not hunk lines
                if cr.kind == RowKind::Mixed {
                    let t = cr.row.text();
                    if t.contains("..") && secs.iter().any(|s| s.kind == SK::SubmoduleShort) {
                        continue;
                    }
                }
                if lenient_blank {
                    let got0 = rows::text_without_gutter(cr.row);
                    while let Some(e0) = exp.get(next) {
                        if e0.text.is_empty() && !(cr.kind == e0.kind && got0.is_empty()) && blank_budget > 0 {
                            blank_budget -= 1;
                            next += 1;
                        } else {
                            break;
                        }
                    }
                    blank_budget = 0;
                }
                let e = match exp.get(next) {
                    Some(e) => e,
                    None => {
                        return Err(fail("extra-row", format!("a content row {:?} `{}` appears after all {} hunk lines were shown (duplicated line?)", cr.kind, rows::text_without_gutter(cr.row), exp.len()), ri));
                    }
                };
                if cr.kind != e.kind {
                    return Err(fail(
                        "order-or-kind",
                        format!("expected {:?} line `{}` (section {}, hunk {}, line {}) but the next content row is {:?} `{}`", e.kind, e.text, e.sec, e.hunk, e.idx, cr.kind, rows::text_without_gutter(cr.row)),
                        ri,
                    ));
                }
                let got = rows::text_without_gutter(cr.row);
                let exact = got == e.text;
                let padded_ok = cr.kind == RowKind::Zero && got.starts_with(&e.text) && got[e.text.len()..].chars().all(|c| c == ' ');
                let mut ok = exact || padded_ok;
                if !ok && mll > 0 && e.raw_len > mll {
                    // truncated beyond the maximum line length: a prefix followed by the mark
                    let g = got.trim_end_matches(' ');
                    if let Some(p) = g.strip_suffix('→') {
                        // (a filler blank may precede the mark when the cut falls in front of a
                        // double-width character)
                        let p = p.trim_end_matches(' ');
                        ok = e.text.starts_with(p);
                    }
                    interesting = true;
                }
                if !ok {
                    return Err(fail(
                        "text",
                        format!("{:?} line of section {}, hunk {}, line {}: expected `{}` but the row shows `{}`", e.kind, e.sec, e.hunk, e.idx, e.text, got),
                        ri,
                    ));
                }
                if !file_omitted {
                    if let Some(c) = cur_sec {
                        if c != e.sec && secs[e.sec].kind != SK::PlainDiffU {
                            return Err(fail(
                                "section",
                                format!("line `{}` of section {} ({}) is shown under the file header of section {} ({})", e.text, e.sec, secs[e.sec].new_path, c, secs[c].new_path),
                                ri,
                            ));
                        }
                    }
                }
                next += 1;
            }
            RowKind::Other if has_gutter(cr.row) && rows::text_without_gutter(cr.row).is_empty() => {
                // a blank row carrying line numbers: an empty hunk line painted without fill
                match exp.get(next) {
                    Some(e) if e.text.is_empty() => next += 1,
                    Some(e) => {
                        return Err(fail("text", format!("{:?} line of section {}, hunk {}, line {}: expected `{}` but the row is blank", e.kind, e.sec, e.hunk, e.idx, e.text), ri));
                    }
                    None => return Err(fail("extra-row", "a blank numbered row appears after all hunk lines were shown".to_string(), ri)),
                }
            }
            _ => {
                if lenient_blank && cr.kind == RowKind::Other && rows::text_without_gutter(cr.row).is_empty() {
                    blank_budget += 1;
                } else if lenient_blank && cr.kind != RowKind::Other {
                    // a header row: blank rows before it may still stand for empty lines that end
                    // the previous hunk
                    while let Some(e0) = exp.get(next) {
                        if e0.text.is_empty() && blank_budget > 0 {
                            blank_budget -= 1;
                            next += 1;
                        } else {
                            break;
                        }
                    }
                    blank_budget = 0;
                }
            }
        }
    }
    if lenient_blank {
        while let Some(e0) = exp.get(next) {
            if e0.text.is_empty() && blank_budget > 0 {
                blank_budget -= 1;
                next += 1;
            } else {
                break;
            }
        }
    }
    if next != exp.len() {
        let e = &exp[next];
        return Err(fail("missing", format!("{} of {} hunk lines shown; first missing: {:?} `{}` (section {}, hunk {}, line {})", next, exp.len(), e.kind, e.text, e.sec, e.hunk, e.idx), crows.len()));
    }
    let _ = ctx;
    Ok(interesting)
}

fn nontrivial(case: &DiffCase, cfg: &Cfg) -> bool {
    let secs = case.sections();
    let mut changed = false;
    let mut special = false;
    for (i, s) in secs.iter().enumerate() {
        for h in &s.hunks {
            for l in &h.lines {
                if l.kind != crate::gen::diff::LK::Ctx {
                    changed = true;
                }
                let t = &l.text;
                if t.is_empty() || t.contains('\t') || !t.is_ascii() || t.starts_with('-') || t.starts_with('+') || t.starts_with('@') || t.starts_with('\\') || t.starts_with("diff") {
                    special = true;
                }
            }
        }
        if matches!(s.kind, SK::Combined | SK::PlainDiffU) {
            special = true;
        }
        if !s.kind.has_hunks() && i > 0 {
            if let Some(l) = secs[i - 1].hunks.last().and_then(|h| h.lines.last()) {
                if l.kind != crate::gen::diff::LK::Ctx {
                    special = true;
                }
            }
        }
    }
    let _ = cfg;
    changed && special
}

impl Prop for C01 {
    fn id(&self) -> &'static str {
        "C01"
    }
    fn cases(&self, tier: Tier) -> usize {
        match tier {
            Tier::Quick => 24_000,
            Tier::Thorough => 400_000,
        }
    }
    fn tape_len(&self, tier: Tier) -> usize {
        if tier == Tier::Quick {
            2500
        } else {
            8000
        }
    }
    fn rule(&self) -> String {
        "cases = diff stream (1-5 git sections of every kind incl. combined, or a plain `diff -u` stream; 1-3 hunks of 1-12 lines from all content classes) x tagged unified-view option set (every style carries a reserved background, so each rendered cell is attributed to its element by the independent terminal model). Oracle: the sequence of (kind, text) read from content rows equals the sequence computed from the input by the reference expected-text function (marker removed/kept, tabs -> N spaces), each under the file header naming its section. Non-trivial = >=1 changed line and >=1 of {marker-like/empty/tab/non-ASCII content, combined or plain diff, hunk-less section directly after a hunk ending in changed lines}; distinct by hash of (input, argv).".to_string()
    }
    fn assumptions(&self) -> Vec<String> {
        vec![
            "terminal model (harness/vcheck/src/term.rs) and unicode-segmentation tables".to_string(),
            "reference expected-text function: marker column removed unless --keep-plus-minus-markers (always kept for combined diffs, as delta documents), each TAB -> `--tabs` spaces".to_string(),
            "submodule (short) hunks are summarised by design and are excluded from the line-by-line claim".to_string(),
            "merge-conflict regions are not generated yet (two comparisons per region)".to_string(),
        ]
    }
    fn needs_binary(&self) -> bool {
        true
    }
    fn check(&self, t: &mut Tape, ctx: &mut Ctx) -> Verdict {
        let (mut case, cfg) = gen(t, ctx.tier);
        let simple = case.sections().iter().all(|s| !matches!(s.kind, SK::Combined | SK::PlainDiffU | SK::SubmoduleShort) && s.hunks.iter().all(|h| h.conflict.is_none()));
        // control characters other than tab inside hunk lines (the backspaces of nroff overstrike in a
        // formatted manual page, a stray BEL or DEL): characters like any other - they are part of
        // the line's text (lines with a tab are left alone: where a tab stop falls after a character
        // without width is not what is examined here)
        if simple && t.chance(1, 8) {
            for it in case.items.iter_mut() {
                if let Item::Section(s) = it {
                    for h in s.hunks.iter_mut() {
                        for l in h.lines.iter_mut() {
                            if !l.text.contains('\t') && !l.text.is_empty() && t.chance(1, 3) {
                                let bounds: Vec<usize> = (0..=l.text.len()).filter(|i| l.text.is_char_boundary(*i)).collect();
                                let at = bounds[t.below(bounds.len())];
                                l.text.insert_str(at, t.ps(&["\u{8}", "\u{7}", "\u{b}", "\u{1}", "\u{7f}", "x\u{8}x"]));
                            }
                        }
                    }
                }
            }
            ctx.class("control-characters-in-hunk-lines");
        }
        // delta as git's pager reads input that git has coloured (color.ui): the same rules hold
        let coloured = simple && t.chance(1, 4);
        ctx.class_if(coloured, "git-coloured-input");
        let input = if coloured {
            let mut co = crate::gen::color::gen_opts(t);
            co.ctx_reset = false; // (git does not colour unchanged lines)
            crate::gen::diff::lines_to_bytes(&crate::gen::color::colorize(&case.render(), &co), case.final_newline)
        } else {
            case.bytes()
        };
        for it in &case.items {
            if let Item::Section(s) = it {
                ctx.class(s.kind.name());
            }
        }
        ctx.class_if(cfg.has("line-numbers"), "line-numbers");
        ctx.class_if(cfg.has("keep-plus-minus-markers"), "keep-markers");
        let out = match exec::run_cfg(&cfg, ctx, &input) {
            Ok(o) => o,
            Err(mut f) => {
                f.detail = json!({"case": exec::case_json(&cfg, &input)});
                f.traits = crate::props::c03::failure_traits(&cfg, &input);
                return Verdict::Fail(f);
            }
        };
        match evaluate(&case, &cfg, &out, ctx) {
            Ok(trunc) => {
                ctx.class_if(trunc, "truncated-line");
                if nontrivial(&case, &cfg) {
                    let mut h = fnv(&input);
                    h = fnv_add(h, &cfg.fingerprint().to_le_bytes());
                    ctx.nontrivial(h);
                    if ctx.want_sample() {
                        ctx.sample(json!({"argv": cfg.base_args(), "input": exec::printable(&input[..input.len().min(1500)]), "output_visible": term::visible_text(&out).chars().take(1500).collect::<String>()}));
                    }
                }
                if ctx.want_xcheck() && cfg.gitconfig.is_none() {
                    ctx.xchecks.push(json!({"argv": cfg.args(None), "env": exec::env_from_spec(&cfg.env), "cwd": cfg.env.current_dir,
                        "identity": ctx.identity, "input_hex": exec::hex(&input), "out_hash": format!("{:016x}", fnv(&out))}));
                }
                Verdict::Pass
            }
            Err(mut f) => {
                f.detail = json!({"case": exec::case_json(&cfg, &input), "output_printable": exec::printable(&out[..out.len().min(6000)])});
                Verdict::Fail(f)
            }
        }
    }
    fn supervisor_phase(&self, sup: &mut Sup) {
        crate::xcheck::binary_crosscheck(sup, false);
    }
}
