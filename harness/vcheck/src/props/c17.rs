//! C17 — git blame output keeps code and attribution; colours follow commits.
use std::collections::BTreeMap;

use serde_json::json;

use crate::exec;
use crate::gen::config::{gen_tagged_cfg, Cfg, CfgOpts, Tag};
use crate::gen::text::{self, TextOpts};
use crate::rows;
use crate::runner::{Ctx, Failure, Prop, Sup, Tier, Verdict};
use crate::tape::{fnv, fnv_add, Tape};
use crate::term::{self, Color};

pub struct C17;

#[derive(Clone, Debug)]
struct Commit {
    hash: String, // with optional ^ boundary marker
    author: String,
    ts: (u32, u32, u32, u32, u32, u32, String), // y m d H M S zone
    file: Option<String>,
}

#[derive(Clone, Debug)]
struct Line {
    commit: usize,
    number: u64,
    code: String,
}

fn ts_input(c: &Commit) -> String {
    format!("{:04}-{:02}-{:02} {:02}:{:02}:{:02} {}", c.ts.0, c.ts.1, c.ts.2, c.ts.3, c.ts.4, c.ts.5, c.ts.6)
}

const AUTHORS: &[&str] = &["Dan Davison", "Ann", "李 雷", "Eve (work)", "a  b", "Ünï Cödé", "xy", "O'Neil, J.", "name with many words here", "ｗｉｄｅ ｎａｍｅ"];

fn gen_history(t: &mut Tape) -> (Vec<Commit>, Vec<Line>) {
    let nc = t.range(1, 12);
    let mut commits: Vec<Commit> = Vec::new();
    for i in 0..nc {
        let len = *t.pick(&[8usize, 8, 9, 12, 40]);
        // distinct in the first characters
        let mut hash = format!("{:x}{}", (i + 10) * 17 % 251 + 16, text::hex(t, len));
        hash.truncate(len.max(8));
        let boundary = t.chance(1, 8);
        let hash = if boundary { format!("^{}", &hash[..hash.len() - 1]) } else { hash };
        commits.push(Commit {
            hash,
            author: t.pick(AUTHORS).to_string(),
            ts: (2000 + t.below(25) as u32, 1 + t.below(12) as u32, 1 + t.below(28) as u32, t.below(24) as u32, t.below(60) as u32, t.below(60) as u32, t.ps(&["+0000", "-0700", "+0530", "+1400", "-1200", "+0100", "-0330", "-0930", "-0030", "+0545", "+1245", "-0001"]).to_string()),
            file: if t.chance(1, 8) { Some(text::path(t, &text::PathOpts::plain())) } else { None },
        });
    }
    let n = t.range(1, 30);
    let o = TextOpts { allow_markerlike: true, allow_long: false, ..TextOpts::all() };
    let mut lines = Vec::new();
    let mut cur = t.below(nc);
    let start = *t.pick(&[1u64, 1, 7, 98, 995, 12345]);
    for i in 0..n {
        // arbitrary interleaving with returns of earlier commits
        match t.weighted(&[4, 3, 2]) {
            0 => {}
            1 => cur = t.below(nc),
            _ => cur = (cur + 1) % nc,
        }
        lines.push(Line { commit: cur, number: start + i as u64, code: text::content(t, &o) });
    }
    (commits, lines)
}

fn render(commits: &[Commit], lines: &[Line]) -> Vec<u8> {
    let mut out = String::new();
    let wa = commits.iter().map(|c| c.author.chars().count()).max().unwrap_or(1);
    let wn = lines.iter().map(|l| l.number.to_string().len()).max().unwrap_or(1);
    for l in lines {
        let c = &commits[l.commit];
        let file = c.file.as_ref().map(|f| format!(" {}", f)).unwrap_or_default();
        let pad = " ".repeat(wa - c.author.chars().count());
        out.push_str(&format!("{}{} ({}{} {} {:>w$}) {}\n", c.hash, file, c.author, pad, ts_input(c), l.number, l.code, w = wn));
    }
    out.into_bytes()
}

const PALETTE_POOL: &[u8] = &[60, 61, 62, 63, 64, 65];
const FORMATS: &[&str] = &[
    "{timestamp:<15} {author:<15.14} {commit:<8}",
    "{commit:<8} {author:<12}",
    "{commit}",
    "{author:>20} | {commit:^10} | {timestamp}",
    "{commit:<8}{timestamp:>30}",
];
const SEP_FORMATS: &[&str] = &["│{n:^4}│", "[{n}]", " {n:>5} | ", "│{n:block}│", "│{n:every-5}│", "│{n:^6_every-3}│", "┊{n:>3_block} ", "none", "│"];
const TS_OUT: &[&str] = &["%Y-%m-%d %H:%M:%S %z", "%H:%M %d.%m.%Y"];

fn ts_formatted(c: &Commit, fmt: &str) -> String {
    if fmt == TS_OUT[0] {
        ts_input(c)
    } else {
        format!("{:02}:{:02} {:02}.{:02}.{:04}", c.ts.3, c.ts.4, c.ts.2, c.ts.1, c.ts.0)
    }
}

impl Prop for C17 {
    fn id(&self) -> &'static str {
        "C17"
    }
    fn identities(&self) -> Vec<Vec<String>> {
        let v = |a: &[&str]| a.iter().map(|s| s.to_string()).collect::<Vec<_>>();
        vec![v(&["git", "blame", "src/main.rs"]), v(&["git", "blame", "-C", "notes.txt"]), v(&["git", "blame", "Makefile"])]
    }
    fn cases(&self, tier: Tier) -> usize {
        match tier {
            Tier::Quick => 12_000,
            Tier::Thorough => 250_000,
        }
    }
    fn tape_len(&self, _t: Tier) -> usize {
        2500
    }
    fn rule(&self) -> String {
        "cases = blame stream from a model history: 1-12 commits (8-40 hex digits, boundary `^`, renamed-file column), authors with spaces/parentheses/double-width characters, any time zone, 1-30 lines with arbitrary interleaving and returns of commits x palette of 2-6 distinct colours x blame-format containing {commit} (+ timestamp/author in any order and width) x separator format ({n} on every line / per block / every k / none) x fixed timestamp output format x tagged code and separator styles. Oracle: per row, in order: code cells = input code (leading blank, tabs expanded); line number as the separator format dictates; metadata (commit, author, formatted time) present, or blank of equal width when the previous line has the same attribution. Colour invariants over the row backgrounds: same attribution as predecessor => same colour; different => different colour; a reappearing attribution gets the colour it had unless that equals the colour of the line above. Non-trivial = >=3 commits with >=1 reappearance and >=1 forced collision avoidance; distinct by hash of (input, argv).".to_string()
    }
    fn assumptions(&self) -> Vec<String> {
        vec![
            "attribution = the formatted metadata (the blame-format always contains {commit}; generated commits differ in their first characters)".to_string(),
            "timestamp output format fixed (no dependence on the current time); git-supplied colours (blame.coloring) are not generated".to_string(),
            "terminal model; rows' colours read from the metadata cells' background".to_string(),
        ]
    }
    fn needs_binary(&self) -> bool {
        false
    }
    fn check(&self, t: &mut Tape, ctx: &mut Ctx) -> Verdict {
        let mut co = CfgOpts::unified();
        co.allow_presets = false;
        co.allow_hyperlinks = false;
        let mut cfg: Cfg = gen_tagged_cfg(t, &co);
        for k in ["features", "navigate", "relative-paths", "line-numbers", "max-line-length", "keep-plus-minus-markers", "side-by-side"] {
            cfg.unset(k);
        }
        if cfg.get("width") == Some("variable") {
            cfg.unset("width");
        }
        let np = t.range(2, 6);
        // distinct colours, random order
        let mut pool: Vec<u8> = PALETTE_POOL.to_vec();
        let mut palette: Vec<u8> = Vec::new();
        for _ in 0..np {
            let i = t.below(pool.len());
            palette.push(pool.remove(i));
        }
        cfg.set("blame-palette", &palette.iter().map(|c| c.to_string()).collect::<Vec<_>>().join(" "));
        // a palette of 24-bit colours, some of them close to each other (the shipped themes have
        // such palettes): whatever the colour depth, lines of different attribution must stay
        // distinguishable, i.e. the *rendered* colours are what the invariants below are about
        let hex_palette = t.chance(1, 5);
        if hex_palette {
            let mut hp: Vec<&str> = vec!["#483d8b", "#663399", "#2f4f4f", "#2e8b57", "#191970", "#000080", "#8b0000", "#800000"];
            let mut chosen: Vec<&str> = Vec::new();
            for _ in 0..np.min(hp.len()) {
                let i = t.below(hp.len());
                chosen.push(hp.remove(i));
            }
            cfg.set("blame-palette", &chosen.join(" "));
            if t.coin() {
                cfg.set("true-color", "never");
            }
            ctx.class("hex-palette");
        }
        let fmt = t.ps(FORMATS);
        cfg.set("blame-format", fmt);
        let sep = t.ps(SEP_FORMATS);
        cfg.set("blame-separator-format", sep);
        let tsf = t.ps(TS_OUT);
        cfg.set("blame-timestamp-output-format", tsf);
        let code_tagged = t.coin();
        if !code_tagged {
            cfg.unset("blame-code-style");
        }
        let (commits, lines) = gen_history(t);
        let input = render(&commits, &lines);
        let out = match exec::run_cfg(&cfg, ctx, &input) {
            Ok(o) => o,
            Err(mut f) => {
                f.detail = json!({"case": exec::case_json(&cfg, &input), "identity": ctx.identity});
                f.traits = crate::props::c03::failure_traits(&cfg, &input);
                return Verdict::Fail(f);
            }
        };
        let sc = term::decode(&out);
        let detail = || json!({"case": exec::case_json(&cfg, &input), "identity": ctx.identity, "output_printable": exec::printable(&out[..out.len().min(6000)])});
        let fail = |sig: &str, msg: String| Verdict::Fail(Failure::new(format!("C17:{}", sig), msg).with(detail()).traits(crate::props::c03::failure_traits(&cfg, &input)));
        let tabw = rows::tab_width(&cfg);
        let rows_: Vec<&term::Row> = sc.rows.iter().filter(|r| !r.cells.is_empty() || !r.erases.is_empty()).collect();
        if rows_.len() != lines.len() {
            return fail("row-count", format!("{} blame lines in, {} rows out", lines.len(), rows_.len()));
        }
        let is_pal = |c: Color| if hex_palette { c != Color::Default && Tag::from_color(c).is_none() } else { matches!(c, Color::Idx(n) if palette.contains(&n)) };
        let mut last_colour: BTreeMap<usize, Color> = BTreeMap::new();
        let mut prev: Option<(usize, Color)> = None;
        let (mut reappear, mut forced) = (false, false);
        let has_n = sep.contains("{n");
        for (i, (row, l)) in rows_.iter().zip(lines.iter()).enumerate() {
            let c = &commits[l.commit];
            let cells = &row.cells;
            // metadata: leading cells with a palette background, up to the first separator cell
            let first_sep = cells.iter().position(|x| Tag::from_color(x.st.bg) == Some(Tag::BlameSep));
            let last_sep = cells.iter().rposition(|x| Tag::from_color(x.st.bg) == Some(Tag::BlameSep));
            let (first_sep, last_sep) = match (first_sep, last_sep) {
                (Some(a), Some(b)) => (a, b),
                _ => return fail("row-shape", format!("row {} has no separator cells: `{}`", i, row.text())),
            };
            let meta: String = cells[..first_sep].iter().map(|x| x.text.as_str()).collect();
            let colour: Color = match cells[..first_sep].first().map(|x| x.st.bg) {
                Some(c) if is_pal(c) => c,
                other => return fail("row-colour", format!("row {}: metadata is not painted with a palette colour ({:?}): `{}`", i, other, row.text())),
            };
            if cells[..first_sep].iter().any(|x| x.st.bg != colour) {
                return fail("row-colour", format!("row {}: metadata cells carry several backgrounds: `{}`", i, row.text()));
            }
            // code
            let code: String = cells[last_sep + 1..].iter().map(|x| x.text.as_str()).collect();
            let want_code = format!(" {}", rows::expand_tabs(&l.code, tabw));
            if code.trim_end_matches(' ') != want_code.trim_end_matches(' ') {
                return fail("code", format!("line {} (input line number {}): code shown `{}`, expected `{}`", i, l.number, code, want_code));
            }
            if code_tagged {
                if let Some(x) = cells[last_sep + 1..].iter().find(|x| !x.text.trim().is_empty() && Tag::from_color(x.st.bg) != Some(Tag::BlameCode)) {
                    return fail("code-style", format!("line {}: code cell `{}` is not painted with blame-code-style", i, x.text));
                }
            } else if let Some(x) = cells[last_sep + 1..].iter().find(|x| x.st.bg != colour) {
                return fail("code-colour", format!("line {}: code cell `{}` does not carry the line's colour {:?}", i, x.text, colour));
            }
            // attribution: metadata or blanks of equal width
            let same_as_prev = prev.map(|(pc, _)| commits[pc].hash == c.hash && commits[pc].author == c.author && ts_input(&commits[pc]) == ts_input(c)).unwrap_or(false);
            if same_as_prev {
                if !meta.trim().is_empty() {
                    return fail("repeat-not-blanked", format!("line {} has the same attribution as the line above, yet its metadata is shown: `{}`", i, meta));
                }
            } else {
                if !meta.contains(&c.hash) {
                    return fail("commit", format!("line {}: metadata `{}` does not show the commit `{}`", i, meta, c.hash));
                }
                if fmt.contains("{timestamp") && !meta.contains(&ts_formatted(c, tsf)) {
                    return fail("timestamp", format!("line {}: metadata `{}` does not show the time `{}`", i, meta, ts_formatted(c, tsf)));
                }
                if fmt.contains("{author:>20}") || fmt.contains("{author:<12}") {
                    if !meta.contains(&c.author) {
                        return fail("author", format!("line {}: metadata `{}` does not show the author `{}`", i, meta, c.author));
                    }
                } else if fmt.contains("{author:<15.14}") {
                    let short: String = c.author.chars().take(14).collect();
                    if !meta.contains(short.trim_end()) {
                        return fail("author", format!("line {}: metadata `{}` does not show the author `{}` (first 14 characters)", i, meta, short));
                    }
                }
            }
            if let Some((pc, _)) = prev {
                // equal width of the metadata column on every row
                let _ = pc;
            }
            // line number per separator format
            if has_n && last_sep > first_sep {
                let num: String = cells[first_sep..=last_sep].iter().filter(|x| Tag::from_color(x.st.bg) != Some(Tag::BlameSep)).map(|x| x.text.as_str()).collect();
                let shown = num.trim();
                let expect_shown = if sep.contains("block") {
                    !same_as_prev
                } else if let Some(k) = sep.find("every-").map(|p| sep[p + 6..].chars().take_while(|c| c.is_ascii_digit()).collect::<String>().parse::<u64>().unwrap_or(1)) {
                    !same_as_prev || l.number % k == 0
                } else {
                    true
                };
                if expect_shown && shown != l.number.to_string() {
                    return fail("line-number", format!("line {}: number shown `{}`, expected {}", i, shown, l.number));
                }
                if !expect_shown && !shown.is_empty() {
                    return fail("line-number", format!("line {}: number `{}` shown although the separator format `{}` blanks it here", i, shown, sep));
                }
            }
            // colour invariants
            if let Some((pc, pcol)) = prev {
                let same_attr = same_as_prev;
                if same_attr && colour != pcol {
                    return fail("colour-same-attribution", format!("line {} has the attribution of the line above but colour {:?} instead of {:?}", i, colour, pcol));
                }
                if !same_attr && colour == pcol {
                    return fail("colour-collision", format!("line {} ({}) is attributed differently from the line above ({}) but has the same colour {:?}", i, c.hash, commits[pc].hash, colour));
                }
                if !same_attr {
                    if let Some(lc) = last_colour.get(&l.commit) {
                        reappear = true;
                        if *lc != pcol && colour != *lc {
                            return fail("colour-not-kept", format!("commit {} reappears on line {}: it had colour {:?}, the line above has {:?}, yet it is now painted {:?}", c.hash, i, lc, pcol, colour));
                        }
                        if *lc == pcol {
                            forced = true;
                        }
                    }
                }
            }
            last_colour.insert(l.commit, colour);
            prev = Some((l.commit, colour));
        }
        let distinct_commits = { let mut v: Vec<usize> = lines.iter().map(|l| l.commit).collect(); v.sort(); v.dedup(); v.len() };
        ctx.class_if(reappear, "commit-reappears");
        ctx.class_if(forced, "forced-collision-avoidance");
        if distinct_commits >= 3 && reappear && forced {
            let mut h = fnv(&input);
            h = fnv_add(h, &cfg.fingerprint().to_le_bytes());
            ctx.nontrivial(h);
            if ctx.want_sample() {
                ctx.sample(json!({"argv": cfg.base_args().iter().filter(|a| a.contains("blame")).collect::<Vec<_>>(), "input": exec::printable(&input[..input.len().min(900)]), "output_visible": term::visible_text(&out).chars().take(900).collect::<String>()}));
            }
        }
        Verdict::Pass
    }
    fn supervisor_phase(&self, _sup: &mut Sup) {}
}
