//! C05 — displayed line numbers are the true old/new file line numbers.
use serde_json::json;

use crate::exec;
use crate::gen::config::{gen_tagged_cfg, Cfg, CfgOpts, Tag};
use crate::gen::diff::{gen_section_of_kind, DiffCase, GenOpts, Item, LK, SK};
use crate::rows::{self, RowKind};
use crate::runner::{Ctx, Failure, Prop, Sup, Tier, Verdict};
use crate::tape::{fnv, fnv_add, Tape};
use crate::term;

pub struct C05;

const LEFT_FORMATS: &[&str] = &["{nm:^4}⋮", "{nm:>6}|", "{nm:<3} ", "{nm}:", "[{nm:^5}]", "{nm:>4}{np:>5} ", "{nm:_>7}·", "L{nm:4}", "│", "{nm:^1}", "1{nm:>3}2", "{nm:>5.2}|", "{nm:.1}:", "{nm:^6.3}⋮"];
const RIGHT_FORMATS: &[&str] = &["{np:^4}│", "{np:>6}|", "{np:<3} ", "{np}:", "{np:^7}‖ ", "{nm:^4}/{np:^4} ", "R{np:>2}>", "│", "{np:^1}", "{np:>5.2}|", "{np:.1}:", "{np:^6.3}│"];

fn gen(t: &mut Tape, tier: Tier) -> (DiffCase, Cfg, bool) {
    let mut o = GenOpts::default_full();
    o.two_way_only = true;
    o.max_hunks = if tier == Tier::Quick { 4 } else { 8 };
    o.max_lines = if tier == Tier::Quick { 12 } else { 40 };
    o.text.allow_markerlike = true;
    let n = t.range(1, 3);
    let mut items = Vec::new();
    for _ in 0..n {
        let k = *t.pick(&[SK::Modified, SK::Modified, SK::Modified, SK::Added, SK::Deleted, SK::RenamedChanged, SK::ModeChanged]);
        items.push(Item::Section(gen_section_of_kind(t, &o, k)));
    }
    let mut case = DiffCase { items, final_newline: true };
    let sbs = t.chance(2, 5);
    let mut co = CfgOpts::unified();
    co.side_by_side = Some(sbs);
    co.allow_presets = false;
    co.min_width = 30;
    let mut cfg = gen_tagged_cfg(t, &co);
    cfg.unset("features");
    if !sbs {
        cfg.flag("line-numbers");
    } else if t.coin() {
        cfg.flag("line-numbers");
    }
    // In the side-by-side view each panel's field is generated with its own placeholder only
    // ({nm} left, {np} right); what a left field should show for {np} on a row whose left panel
    // is empty is not something the property states.
    let lfs: Vec<&str> = LEFT_FORMATS.iter().copied().filter(|f| !sbs || !f.contains("{np")).collect();
    let rfs: Vec<&str> = RIGHT_FORMATS.iter().copied().filter(|f| !sbs || !f.contains("{nm")).collect();
    if t.coin() {
        cfg.set("line-numbers-left-format", t.ps(&lfs));
    } else {
        cfg.unset("line-numbers-left-format");
    }
    if t.coin() {
        cfg.set("line-numbers-right-format", t.ps(&rfs));
    } else {
        cfg.unset("line-numbers-right-format");
    }
    if sbs {
        // the narrowest width that still leaves a column of text beside the gutters is found by
        // delta itself; generate widths from small to large
        match t.weighted(&[2, 3, 2]) {
            0 => cfg.unset("width"),
            1 => cfg.set("width", &t.range(40, 120).to_string()),
            _ => cfg.set("width", &t.range(121, 220).to_string()),
        }
    }
    // git's diff.suppressBlankEmpty: an empty unchanged line is written without its leading blank.
    // It is still a line of both files (listed finding KF-C05-1: delta does not count it), so it
    // is generated rarely; drawn last so that the layout of everything above is stable.
    let mut extra = t.fork(3);
    if extra.chance(1, 40) {
        let mut ctx_lines: Vec<&mut crate::gen::diff::HLine> = Vec::new();
        for it in case.items.iter_mut() {
            if let Item::Section(sec) = it {
                for h in sec.hunks.iter_mut() {
                    for l in h.lines.iter_mut() {
                        if l.kind == LK::Ctx && !l.no_newline_after {
                            ctx_lines.push(l);
                        }
                    }
                }
            }
        }
        if !ctx_lines.is_empty() {
            let i = extra.below(ctx_lines.len());
            ctx_lines[i].text.clear();
            ctx_lines[i].prefix.clear();
        }
    }
    // hunk-header with file/line-number more often
    crate::gen::config::keep_headers_intact(&mut cfg, &case.render());
    (case, cfg, sbs)
}

#[derive(Clone, Debug)]
struct LineExp {
    kind: LK,
    old: u64,
    new: u64,
    text: String,
    sec: usize,
    hunk: usize,
    idx: usize,
}

fn numbers_for(fmt_placeholders: &[bool], kind: LK, old: u64, new: u64) -> Vec<u64> {
    let (m, p) = match kind {
        LK::Minus => (Some(old), None),
        LK::Plus => (None, Some(new)),
        LK::Ctx => (Some(old), Some(new)),
    };
    fmt_placeholders.iter().filter_map(|is_np| if *is_np { p } else { m }).collect()
}

fn evaluate(case: &DiffCase, cfg: &Cfg, sbs: bool, out: &[u8]) -> Result<(bool, bool), Failure> {
    let secs = case.sections();
    let mut exp: Vec<LineExp> = Vec::new();
    for (si, s) in secs.iter().enumerate() {
        for (hi, h) in s.hunks.iter().enumerate() {
            let (mut old, mut new) = (h.old_start as u64, h.new_start as u64);
            for (li, l) in h.lines.iter().enumerate() {
                exp.push(LineExp { kind: l.kind, old, new, text: rows::expected_unified_text(l, cfg, false), sec: si, hunk: hi, idx: li });
                match l.kind {
                    LK::Ctx => {
                        old += 1;
                        new += 1;
                    }
                    LK::Minus => old += 1,
                    LK::Plus => new += 1,
                }
            }
        }
    }
    let lf = cfg.get("line-numbers-left-format").unwrap_or("{nm:^4}⋮");
    let rf = cfg.get("line-numbers-right-format").unwrap_or("{np:^4}│");
    let (lp, rp) = (rows::placeholders(lf), rows::placeholders(rf));
    let sc = term::decode(out);
    let fail = |sig: &str, msg: String| Failure::new(format!("C05:{}", sig), msg);
    let mut wrapped = false;
    let mut unequal = false;
    if !sbs {
        let mut all: Vec<bool> = lp.clone();
        all.extend(rp.iter());
        let crows = rows::classify_all(&sc);
        let mut next = 0usize;
        for (ri, cr) in crows.iter().enumerate() {
            let is_content = matches!(cr.kind, RowKind::Minus | RowKind::Plus | RowKind::Zero | RowKind::Mixed);
            let gutter_only = cr.kind == RowKind::Other && cr.tags.any(|t| t.is_gutter());
            if !(is_content || gutter_only) {
                continue;
            }
            let e = match exp.get(next) {
                Some(e) => e,
                None => return Err(fail("extra-row", format!("numbered row {} appears after all hunk lines", ri))),
            };
            let got = rows::unified_gutter_numbers(cr.row);
            let want = numbers_for(&all, e.kind, e.old, e.new);
            // two fields may touch (no literal between them): then only the digit strings compare
            let digits = |v: &Vec<u64>| v.iter().map(|n| n.to_string()).collect::<String>();
            if got != want && !(got.len() < want.len() && digits(&got) == digits(&want)) {
                return Err(fail(
                    "unified-number",
                    format!("{:?} line `{}` (section {}, hunk {}, line {}; old {}, new {}) shows numbers {:?}, expected {:?} for formats `{}` `{}` (output row {})", e.kind, e.text, e.sec, e.hunk, e.idx, e.old, e.new, got, want, lf, rf, ri),
                ));
            }
            next += 1;
        }
        if next != exp.len() {
            return Err(fail("missing-row", format!("{} of {} hunk lines found as numbered rows", next, exp.len())));
        }
    } else {
        // per side: the flat sequence of numbers over all rows equals the expected one, and every
        // row that carries a number starts the line the number belongs to
        let left_lines: Vec<&LineExp> = exp.iter().filter(|e| e.kind != LK::Plus).collect();
        let right_lines: Vec<&LineExp> = exp.iter().filter(|e| e.kind != LK::Minus).collect();
        let (mut li, mut ri_) = (0usize, 0usize);
        for (ri, row) in sc.rows.iter().enumerate() {
            let (l, r) = match rows::split_sbs(row) {
                Some(x) => x,
                None => continue,
            };
            for (side, panel, lines, idx, fmt, ph) in [("left", &l, &left_lines, &mut li, lf, &lp), ("right", &r, &right_lines, &mut ri_, rf, &rp)] {
                let has_content_tag = panel.has(|t| t.is_content());
                if panel.numbers.is_empty() {
                    if has_content_tag && !ph.is_empty() {
                        wrapped = true; // a continuation row (or a line whose placeholders are blank on this side)
                    }
                    continue;
                }
                let e = match lines.get(*idx) {
                    Some(e) => *e,
                    None => return Err(fail("extra-number", format!("{} panel of output row {} shows numbers {:?} after all lines of that side were numbered", side, ri, panel.numbers))),
                };
                let want = numbers_for(ph, e.kind, e.old, e.new);
                if want.is_empty() {
                    // this line shows no number on this side with this format; the numbers seen belong to a later line
                    // (cannot happen for the generated formats: every side format names its own placeholder or none)
                }
                if panel.numbers != want {
                    return Err(fail(
                        "sbs-number",
                        format!("{} panel, output row {}: shows numbers {:?} but the next {:?} line `{}` (section {}, hunk {}, line {}; old {}, new {}) must show {:?} with format `{}`", side, ri, panel.numbers, e.kind, e.text, e.sec, e.hunk, e.idx, e.old, e.new, want, fmt),
                    ));
                }
                // the row starts that line
                let shown = panel.text_without_hints();
                let shown = shown.trim_end_matches(' ');
                // (a row cut with the truncation mark is judged by C07, not here)
                let truncated = shown.ends_with('→');
                if !truncated && !e.text.starts_with(shown) {
                    return Err(fail(
                        "sbs-number-on-wrong-line",
                        format!("{} panel, output row {}: number(s) {:?} belong to `{}` but the row shows `{}`", side, ri, panel.numbers, e.text, shown),
                    ));
                }
                *idx += 1;
            }
        }
        // lines whose side format has no placeholder for them never show numbers: count only those that do
        let expect_left = left_lines.iter().filter(|e| !numbers_for(&lp, e.kind, e.old, e.new).is_empty()).count();
        let expect_right = right_lines.iter().filter(|e| !numbers_for(&rp, e.kind, e.old, e.new).is_empty()).count();
        if lp.iter().all(|p| !*p) && rp.iter().all(|p| *p) {
            // plain formats ({nm} left, {np} right): every line of a side is numbered exactly once
            if li != expect_left || ri_ != expect_right {
                return Err(fail("sbs-missing-number", format!("numbered {} of {} left lines and {} of {} right lines", li, expect_left, ri_, expect_right)));
            }
        }
    }
    for s in &secs {
        for h in &s.hunks {
            // a sub-hunk with unequal numbers of removed/added lines
            let mut m = 0;
            let mut p = 0;
            for l in h.lines.iter().chain(std::iter::once(&crate::gen::diff::HLine { kind: LK::Ctx, prefix: String::new(), text: String::new(), no_newline_after: false })) {
                match l.kind {
                    LK::Minus => m += 1,
                    LK::Plus => p += 1,
                    LK::Ctx => {
                        if m != p && (m > 0 || p > 0) {
                            unequal = true;
                        }
                        m = 0;
                        p = 0;
                    }
                }
            }
        }
    }
    // hunk header: new-file start and path when requested
    let hh = cfg.get("hunk-header-style").unwrap_or("");
    let words: Vec<&str> = hh.split(' ').collect();
    if !words.contains(&"omit") {
        let crows = rows::classify_all(&sc);
        let headers: Vec<&rows::CRow> = crows.iter().filter(|c| c.kind == RowKind::HunkHeader).collect();
        let all_hunks: Vec<(usize, usize)> = secs.iter().enumerate().flat_map(|(si, s)| (0..s.hunks.len()).map(move |hi| (si, hi))).collect();
        if words.contains(&"line-number") && headers.len() == all_hunks.len() {
            for (hrow, (si, hi)) in headers.iter().zip(all_hunks.iter()) {
                let n: String = hrow.row.cells.iter().filter(|c| Tag::from_color(c.st.bg) == Some(Tag::HunkHeaderLn)).map(|c| c.text.as_str()).collect();
                let want = secs[*si].hunks[*hi].new_start.to_string();
                if n.trim() != want {
                    return Err(fail("hunk-header-line-number", format!("hunk header of section {} hunk {} shows `{}`, the hunk starts at new-file line {}", si, hi, n.trim(), want)));
                }
                if words.contains(&"file") {
                    let f: String = hrow.row.cells.iter().filter(|c| Tag::from_color(c.st.bg) == Some(Tag::HunkHeaderFile)).map(|c| c.text.as_str()).collect();
                    let s = secs[*si];
                    let wantp = if s.kind == SK::Deleted { &s.old_path } else { &s.new_path };
                    if !f.contains(wantp.as_str()) {
                        return Err(fail("hunk-header-file", format!("hunk header of section {} hunk {} names `{}`, expected `{}`", si, hi, f.trim(), wantp)));
                    }
                }
            }
        }
    }
    Ok((wrapped, unequal))
}

impl Prop for C05 {
    fn id(&self) -> &'static str {
        "C05"
    }
    fn cases(&self, tier: Tier) -> usize {
        match tier {
            Tier::Quick => 16_000,
            Tier::Thorough => 300_000,
        }
    }
    fn tape_len(&self, tier: Tier) -> usize {
        if tier == Tier::Quick {
            3000
        } else {
            12000
        }
    }
    fn rule(&self) -> String {
        "cases = two-way multi-file multi-hunk git diffs (starts 0, 1, 9/10, 99/100, ..., > 10^6; omitted counts; zero-length sides; sub-hunks of 0-4 removed x 0-4 added lines, paired/unpaired per distance threshold; long lines that wrap in side-by-side) x tagged option set with line numbers in the unified or side-by-side view and number formats from a grammar ({nm}/{np} with fill/alignment/width/precision, both placeholders in one field, literals incl. digits). Oracle: reference counter (old/new start from the hunk header; '-' advances old, '+' new, ' ' both); the integers found in the gutter cells painted with the number styles must equal, row by row (unified) or as per-side sequences with each numbered row starting its own line (side-by-side), what the counter gives for the generated formats; the hunk-header row shows the new-file start and the section's path when the style asks for them. Non-trivial = >=2 hunks, a sub-hunk with unequal numbers of removed/added lines, and for side-by-side >=1 continuation row; distinct by hash of (input, argv).".to_string()
    }
    fn assumptions(&self) -> Vec<String> {
        vec![
            "terminal model and tag attribution of gutter cells (number cells = cells painted with line-numbers-minus/zero/plus-style)".to_string(),
            "reference counter written from the property statement".to_string(),
            "combined diffs are outside this property (two-way diffs only)".to_string(),
        ]
    }
    fn needs_binary(&self) -> bool {
        true
    }
    fn check(&self, t: &mut Tape, ctx: &mut Ctx) -> Verdict {
        let (case, cfg, sbs) = gen(t, ctx.tier);
        let input = case.bytes();
        ctx.class(if sbs { "side-by-side" } else { "unified" });
        ctx.class_if(cfg.has("line-numbers-left-format") || cfg.has("line-numbers-right-format"), "custom-format");
        let out = match exec::run_cfg(&cfg, ctx, &input) {
            Ok(o) => o,
            Err(mut f) => {
                f.detail = json!({"case": exec::case_json(&cfg, &input)});
                f.traits = crate::props::c03::failure_traits(&cfg, &input);
                return Verdict::Fail(f);
            }
        };
        match evaluate(&case, &cfg, sbs, &out) {
            Ok((wrapped, unequal)) => {
                ctx.class_if(wrapped, "continuation-rows");
                let nh: usize = case.sections().iter().map(|s| s.hunks.len()).sum();
                if nh >= 2 && unequal && (!sbs || wrapped) {
                    let mut h = fnv(&input);
                    h = fnv_add(h, &cfg.fingerprint().to_le_bytes());
                    ctx.nontrivial(h);
                    if ctx.want_sample() {
                        ctx.sample(json!({"argv": cfg.base_args(), "input": exec::printable(&input[..input.len().min(1200)]), "output_visible": term::visible_text(&out).chars().take(1500).collect::<String>()}));
                    }
                }
                if ctx.want_xcheck() && cfg.gitconfig.is_none() && cfg.env.current_dir.is_none() {
                    ctx.xchecks.push(json!({"argv": cfg.args(None), "env": exec::env_from_spec(&cfg.env), "cwd": cfg.env.current_dir,
                        "identity": ctx.identity, "input_hex": exec::hex(&input), "out_hash": format!("{:016x}", fnv(&out))}));
                }
                Verdict::Pass
            }
            Err(mut f) => {
                f.detail = json!({"case": exec::case_json(&cfg, &input), "output_printable": exec::printable(&out[..out.len().min(8000)])});
                f.traits = crate::props::c03::failure_traits(&cfg, &input);
                if case.sections().iter().any(|s| s.hunks.iter().any(|h| h.lines.iter().any(|l| l.kind == LK::Ctx && l.prefix.is_empty() && l.text.is_empty()))) {
                    f.traits.push("blank-context-line-without-marker".to_string());
                }
                Verdict::Fail(f)
            }
        }
    }
    fn supervisor_phase(&self, sup: &mut Sup) {
        crate::xcheck::binary_crosscheck(sup, false);
    }
}
