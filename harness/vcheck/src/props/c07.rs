//! C07 — side-by-side view: correct panels, fixed geometry, lossless wrapping.
use serde_json::json;
use unicode_width::UnicodeWidthStr;

use crate::exec;
use crate::gen::config::{gen_tagged_cfg, Cfg, CfgOpts, Tag};
use crate::gen::diff::{finish_hunk, DiffCase, HLine, Item, Section, LK, SK};
use crate::gen::text::{self, TextOpts};
use crate::rows::{self, Panel};
use crate::runner::{Ctx, Failure, Prop, Sup, Tier, Verdict};
use crate::tape::{fnv, fnv_add, Tape};
use crate::term::{self, REVERSE};

pub struct C07;

fn width_of(s: &str) -> usize {
    UnicodeWidthStr::width(s)
}

/// a line whose display width is close to `target`
fn line_of_width(t: &mut Tape, target: usize, o: &TextOpts) -> String {
    let mut s = text::indent(t, o);
    while width_of(&s) < target {
        if !s.is_empty() && t.chance(3, 4) {
            s.push(' ');
        }
        s.push_str(&text::token(t, o));
    }
    // trim back to at most target + 1
    while width_of(&s) > target + 1 {
        s.pop();
    }
    s
}

fn gen(t: &mut Tape, tier: Tier, tty: bool) -> (DiffCase, Cfg) {
    let mut co = CfgOpts::unified();
    co.side_by_side = Some(true);
    co.allow_presets = false;
    co.allow_hyperlinks = false;
    co.allow_navigate = false;
    co.min_width = 24;
    co.max_width = if tier == Tier::Quick { 200 } else { 250 };
    let mut cfg = gen_tagged_cfg(t, &co);
    cfg.unset("max-line-length");
    // with an unlimited number of wrapped rows delta switches the truncation of its input off
    // altogether, whatever --max-line-length says: nothing may be cut then
    if matches!(cfg.get("wrap-max-lines"), Some("unlimited") | Some("∞")) && t.coin() {
        cfg.set("max-line-length", t.ps(&["1", "20", "45", "80"]));
    }
    cfg.unset("features");
    cfg.unset("relative-paths");
    // ansi fill needs a terminal on stdout (delta switches to spaces otherwise): only the
    // workers whose identity asks for a pseudo-terminal keep/choose the fill method
    cfg.unset("line-fill-method");
    if t.chance(1, 3) {
        cfg.set("line-numbers-left-format", t.ps(&["│{nm:^4}│", "{nm:>6}|", "{nm}:", "[{nm:^5}]", "{nm:^1}"]));
        cfg.set("line-numbers-right-format", t.ps(&["│{np:^4}│", "{np:>6}|", "{np}:", "{np:^7}‖", "{np:^1}"]));
    } else {
        cfg.unset("line-numbers-left-format");
        cfg.unset("line-numbers-right-format");
    }
    let width: usize = match cfg.get("width") {
        Some("variable") | None => 80,
        Some(w) => w.parse().unwrap_or(80),
    };
    // estimate of the text width of a panel (exact value is delta's business)
    let ptw = (width / 2).saturating_sub(6).max(2);
    let o = TextOpts { allow_markerlike: true, allow_long: false, ..TextOpts::all() };
    let nsec = t.range(1, 2);
    let mut items = Vec::new();
    for _ in 0..nsec {
        let nh = t.range(1, 2);
        let mut hunks = Vec::new();
        let mut old = t.range(1, 3000);
        let mut new = t.range(1, 3000);
        for _ in 0..nh {
            let mut lines: Vec<HLine> = Vec::new();
            let nl = t.range(1, if tier == Tier::Quick { 8 } else { 20 });
            let mk = |kind: LK, text: String| HLine { kind, prefix: match kind { LK::Ctx => " ", LK::Minus => "-", LK::Plus => "+" }.to_string(), text, no_newline_after: false };
            while lines.len() < nl {
                let gen_line = |t: &mut Tape| -> String {
                    match t.weighted(&[4, 4, 2, 1]) {
                        0 => text::content(t, &o),
                        1 => {
                            // straddle a boundary: k * ptw +- 2
                            let k = t.range(1, 4);
                            let target = (k * ptw + t.range(0, 4)).saturating_sub(2);
                            line_of_width(t, target, &o)
                        }
                        2 => {
                            let target = t.range(ptw.saturating_sub(2), ptw + 2);
                            line_of_width(t, target, &o)
                        }
                        _ => String::new(),
                    }
                };
                if t.chance(1, 3) {
                    lines.push(mk(LK::Ctx, gen_line(t)));
                } else {
                    let m = t.weighted(&[1, 4, 2, 1]);
                    let p = t.weighted(&[1, 4, 2, 1]);
                    let (m, p) = if m + p == 0 { (1, 1) } else { (m, p) };
                    let minus: Vec<String> = (0..m).map(|_| gen_line(t)).collect();
                    for s in &minus {
                        lines.push(mk(LK::Minus, s.clone()));
                    }
                    for i in 0..p {
                        let s = if i < minus.len() && t.chance(2, 3) { text::mutate_line(t, &minus[i], &o) } else { gen_line(t) };
                        lines.push(mk(LK::Plus, s));
                    }
                }
            }
            let h = finish_hunk(old, new, lines, String::new(), t.coin(), 1);
            old += h.lines.len() + t.range(1, 30);
            new += h.lines.len() + t.range(1, 30);
            hunks.push(h);
        }
        let p = text::path(t, &text::PathOpts::plain());
        items.push(Item::Section(Section { kind: SK::Modified, old_path: p.clone(), new_path: p, old_mode: "100644".into(), new_mode: "100644".into(), hunks, parents: 1, prefixes: ("a/".into(), "b/".into()) }));
    }
    // (drawn last, so that the layout of everything above is what it was before these were added)
    let mut extra = t.fork(6);
    let fill = extra.weighted(&[2, 2, 1]);
    if tty {
        match fill {
            0 => {}
            1 => cfg.set("line-fill-method", "ansi"),
            _ => cfg.set("line-fill-method", "spaces"),
        }
    }
    // a gutter without a number (the manual's recipe for hiding the numbers): the side is then
    // judged as a whole (see `evaluate`), with unlimited wrapping so that nothing may be cut
    let numberless = extra.weighted(&[12, 1, 1, 1]);
    if numberless > 0 {
        if numberless & 1 == 1 {
            cfg.set("line-numbers-right-format", extra.ps(&["│ ", "| ", "▏"]));
        } else {
            extra.raw();
        }
        if numberless >= 2 {
            cfg.set("line-numbers-left-format", extra.ps(&["│ ", "| ", "▏"]));
        }
        cfg.set("wrap-max-lines", "unlimited");
    }
    (DiffCase { items, final_newline: true }, cfg)
}

#[derive(Debug, Clone)]
struct Exp {
    kind: LK,
    num: u64,
    text: String,
    sec: usize,
    hunk: usize,
    idx: usize,
    /// index in sub-hunk order for pairing: (subhunk id, i-th minus / i-th plus)
    sub: usize,
    ord: usize,
}

struct Assembled {
    exp_index: usize,
    fragments: Vec<String>,
    truncated: bool,
    first_row: usize,
    rows: usize,
}

fn is_trunc_mark(c: &(String, usize, Option<Tag>), row: &term::Row, panel_cell_index: usize, panel_first_cell: usize) -> bool {
    let cell = &row.cells[panel_first_cell + panel_cell_index];
    c.0 == "→" && c.2.is_none() && cell.st.attrs & REVERSE != 0
}

fn evaluate(case: &DiffCase, cfg: &Cfg, out: &[u8]) -> Result<(bool, bool, bool), Failure> {
    let secs = case.sections();
    let keep = cfg.has("keep-plus-minus-markers");
    let tabw = rows::tab_width(cfg);
    let mut left: Vec<Exp> = Vec::new();
    let mut right: Vec<Exp> = Vec::new();
    let mut sub = 0usize;
    for (si, s) in secs.iter().enumerate() {
        for (hi, h) in s.hunks.iter().enumerate() {
            let (mut old, mut new) = (h.old_start as u64, h.new_start as u64);
            let (mut mi, mut pi) = (0usize, 0usize);
            let mut prev = LK::Ctx;
            for (li, l) in h.lines.iter().enumerate() {
                let body = rows::expand_tabs(&l.text, tabw);
                let text = if keep { format!("{}{}", l.prefix, body) } else { body };
                match l.kind {
                    LK::Ctx => {
                        sub += 1;
                        mi = 0;
                        pi = 0;
                        left.push(Exp { kind: LK::Ctx, num: old, text: text.clone(), sec: si, hunk: hi, idx: li, sub, ord: 0 });
                        right.push(Exp { kind: LK::Ctx, num: new, text, sec: si, hunk: hi, idx: li, sub, ord: 0 });
                        old += 1;
                        new += 1;
                    }
                    LK::Minus => {
                        if prev == LK::Plus {
                            sub += 1;
                            mi = 0;
                            pi = 0;
                        }
                        left.push(Exp { kind: LK::Minus, num: old, text, sec: si, hunk: hi, idx: li, sub, ord: mi });
                        mi += 1;
                        old += 1;
                    }
                    LK::Plus => {
                        right.push(Exp { kind: LK::Plus, num: new, text, sec: si, hunk: hi, idx: li, sub, ord: pi });
                        pi += 1;
                        new += 1;
                    }
                }
                prev = l.kind;
            }
            sub += 1;
        }
    }
    let sc = term::decode(out);
    let fail = |sig: &str, msg: String| Failure::new(format!("C07:{}", sig), msg);
    let width: usize = match cfg.get("width") {
        Some("variable") | None => 80,
        Some(w) => w.parse().unwrap_or(80),
    };
    // a side whose gutter format has no number placeholder cannot be assembled line by line: its
    // fragments are collected and judged as a whole
    let numbered = [
        cfg.get("line-numbers-left-format").map(|f| !rows::placeholders(f).is_empty()).unwrap_or(true),
        cfg.get("line-numbers-right-format").map(|f| !rows::placeholders(f).is_empty()).unwrap_or(true),
    ];
    let mut loose: [Vec<String>; 2] = [Vec::new(), Vec::new()];
    let mut loose_trunc: [Option<usize>; 2] = [None, None];
    let mut right_start: Option<(usize, usize)> = None;
    let mut asm_l: Vec<Assembled> = Vec::new();
    let mut asm_r: Vec<Assembled> = Vec::new();
    let mut cur_l: Option<usize> = None; // index into asm_l of the line being continued
    let mut cur_r: Option<usize> = None;
    let mut wide_near_edge = false;
    for (ri, row) in sc.rows.iter().enumerate() {
        let (l, r) = match rows::split_sbs(row) {
            Some(x) => x,
            None => continue,
        };
        // (a) width
        let w = row.width();
        if w > width {
            return Err(fail("row-too-wide", format!("output row {} is {} columns wide, configured width is {}: `{}`", ri, w, width, row.text())));
        }
        // (b) right panel start column
        match right_start {
            None => right_start = Some((r.start_col, ri)),
            Some((c, r0)) if c != r.start_col => {
                return Err(fail("right-panel-column", format!("right panel starts at column {} on output row {} but at column {} on row {}", r.start_col, ri, c, r0)));
            }
            _ => {}
        }
        // (c) sides
        if l.has(|t| t.is_plus()) {
            return Err(fail("plus-on-left", format!("added-line styling in the left panel of output row {}: `{}`", ri, l.text())));
        }
        if r.has(|t| t.is_minus()) {
            return Err(fail("minus-on-right", format!("removed-line styling in the right panel of output row {}: `{}`", ri, r.text())));
        }
        for (side, p, exp, asm, cur) in [(0, &l, &left, &mut asm_l, &mut cur_l), (1, &r, &right, &mut asm_r, &mut cur_r)] {
            let first_cell = if side == 0 { row.cells.len() - r_cells_len(row, &r) - gutter_len(row, &r) - p.cells.len() } else { row.cells.len() - p.cells.len() };
            let has_content = p.has(|t| t.is_content() || t == Tag::InlineHint) || p.cells.iter().enumerate().any(|(i, c)| is_trunc_mark(c, row, i, first_cell));
            // fragment text: drop a right-alignment prefix (everything up to and including a
            // non-final inline-hint cell) and a final wrap symbol
            let mut cells: Vec<(String, usize, Option<Tag>)> = p.cells.clone();
            let mut truncated = false;
            // Padding: blanks after a final wrap symbol / truncation mark (delta pads the panel
            // when a double-width character did not fit), and untagged trailing blanks.
            if let Some(j) = cells.iter().rposition(|c| c.0 != " ") {
                if cells[j].2 == Some(Tag::InlineHint) || is_trunc_mark(&cells[j], row, j, first_cell) {
                    cells.truncate(j + 1);
                }
            }
            while matches!(cells.last(), Some(c) if c.0 == " " && c.2.is_none()) {
                cells.pop();
            }
            if let Some(lastc) = cells.last() {
                let idx = cells.len() - 1;
                if is_trunc_mark(lastc, row, idx, first_cell) {
                    truncated = true;
                    cells.pop();
                }
            }
            if matches!(cells.last(), Some(c) if c.2 == Some(Tag::InlineHint)) {
                cells.pop();
            }
            // with markers kept, continuation rows start with one blank marker column
            if keep && p.numbers.is_empty() && matches!(cells.first(), Some(c) if c.0 == " ") {
                cells.remove(0);
            }
            // right-aligned continuation: blanks, then the prefix symbol, then the text
            if let Some(k) = cells.iter().position(|c| c.2 == Some(Tag::InlineHint)) {
                if cells[..k].iter().all(|c| c.0 == " ") {
                    cells.drain(..=k);
                }
            }
            let frag: String = cells.iter().map(|c| c.0.as_str()).collect();
            if let Some(lastc) = cells.iter().rev().find(|c| c.0 != " ") {
                if lastc.1 == 2 {
                    wide_near_edge = true;
                }
            }
            if !numbered[side] {
                if has_content {
                    loose[side].push(frag);
                    if truncated && loose_trunc[side].is_none() {
                        loose_trunc[side] = Some(ri);
                    }
                }
            } else if !p.numbers.is_empty() {
                // first row of the next line of this side
                let ei = asm.len();
                let e = match exp.get(ei) {
                    Some(e) => e,
                    None => return Err(fail("extra-line", format!("{} panel of output row {} starts a line (number {:?}) after all lines of that side were shown", if side == 0 { "left" } else { "right" }, ri, p.numbers))),
                };
                if p.numbers != vec![e.num] {
                    return Err(fail("line-order", format!("{} panel of output row {} shows number {:?}; the next line of that side is `{}` with number {}", if side == 0 { "left" } else { "right" }, ri, p.numbers, e.text, e.num)));
                }
                asm.push(Assembled { exp_index: ei, fragments: vec![frag], truncated, first_row: ri, rows: 1 });
                *cur = Some(asm.len() - 1);
            } else if has_content {
                match *cur {
                    Some(ci) => {
                        let a = &mut asm[ci];
                        if a.truncated {
                            return Err(fail("content-after-truncation", format!("output row {} continues a line that was already cut with the truncation mark", ri)));
                        }
                        a.fragments.push(frag);
                        a.truncated |= truncated;
                        a.rows += 1;
                    }
                    None => return Err(fail("orphan-continuation", format!("output row {} has content without a line number and no line to continue: `{}`", ri, p.text()))),
                }
            } else {
                // empty panel on this row
            }
        }
        // unchanged lines: identical text on both sides of the same row
        let lz = l.has(|t| t.is_zero()) && !l.has(|t| t.is_minus());
        let rz = r.has(|t| t.is_zero()) && !r.has(|t| t.is_plus());
        let (lt, rt) = (l.text_without_hints(), r.text_without_hints());
        let (lt, rt) = (lt.trim_end().trim_end_matches('→').trim_end().to_string(), rt.trim_end().trim_end_matches('→').trim_end().to_string());
        // (gutters of different widths leave the panels different room: then one side shows a
        // prefix of the other)
        if lz && rz && !(lt.starts_with(&rt) || rt.starts_with(&lt)) {
            return Err(fail("zero-sides-differ", format!("unchanged line differs between the panels of output row {}: `{}` vs `{}`", ri, l.text().trim_end(), r.text().trim_end())));
        }
    }
    // (d)/(e) reassembly
    let max_rows: Option<usize> = match cfg.get("wrap-max-lines") {
        None => Some(3),
        Some("unlimited") | Some("∞") => None,
        Some(n) => n.parse::<usize>().ok().map(|n| n + 1),
    };
    let mut any_wrapped = false;
    let mut any_trunc = false;
    for (si, (side, exp, asm)) in [("left", &left, &asm_l), ("right", &right, &asm_r)].into_iter().enumerate() {
        if !numbered[si] {
            // (generated with unlimited wrapping: nothing may be cut, and all text must be there)
            if let Some(ri) = loose_trunc[si] {
                return Err(fail("cut-although-unlimited", format!("{} panel (gutter without numbers): output row {} ends in the truncation mark although the number of wrapped rows is unlimited", side, ri)));
            }
            let got: String = loose[si].concat().chars().filter(|c| *c != ' ').collect();
            let want: String = exp.iter().map(|e| e.text.as_str()).collect::<String>().chars().filter(|c| *c != ' ').collect();
            if got != want {
                let k = got.chars().zip(want.chars()).take_while(|(a, b)| a == b).count();
                return Err(fail("reassembly", format!("{} panel (gutter without numbers): the text of all rows joined differs from the text of all lines of that side (blanks ignored) at character {}: shown `{}`, expected `{}`", side, k, got.chars().skip(k.saturating_sub(10)).take(40).collect::<String>(), want.chars().skip(k.saturating_sub(10)).take(40).collect::<String>())));
            }
            if loose[si].len() > exp.iter().filter(|e| !e.text.trim().is_empty()).count() {
                any_wrapped = true;
            }
            continue;
        }
        if asm.len() != exp.len() {
            let e = &exp[asm.len().min(exp.len() - 1)];
            return Err(fail("line-missing", format!("{} panel: {} of {} lines shown; first missing: `{}` (section {}, hunk {}, line {})", side, asm.len(), exp.len(), e.text, e.sec, e.hunk, e.idx)));
        }
        for a in asm.iter() {
            let e = &exp[a.exp_index];
            let joined: String = a.fragments.concat();
            if a.rows > 1 {
                any_wrapped = true;
            }
            if a.truncated {
                any_trunc = true;
                let shown = joined.trim_end_matches(' ');
                if !e.text.starts_with(shown) {
                    return Err(fail("truncated-not-prefix", format!("{} panel: line `{}` is cut with the truncation mark but the text shown before it, `{}`, is not a prefix of the line (rows {}..)", side, e.text, shown, a.first_row)));
                }
                if let Some(m) = max_rows {
                    // with a tiny panel (one column of text or less) delta does not wrap at all
                    if a.rows < m && a.rows != 1 {
                        return Err(fail("cut-too-early", format!("{} panel: line `{}` is cut after {} rows although {} are allowed", side, e.text, a.rows, m)));
                    }
                } else if a.rows != 1 {
                    return Err(fail("cut-although-unlimited", format!("{} panel: line `{}` is cut although the number of wrapped rows is unlimited", side, e.text)));
                }
            } else if joined.trim_end_matches(' ') != e.text.trim_end_matches(' ') {
                return Err(fail("reassembly", format!("{} panel: joining the fragments of the line shown from output row {} gives `{}`, the line is `{}`", side, a.first_row, joined.trim_end_matches(' '), e.text)));
            }
            if let Some(m) = max_rows {
                if a.rows > m {
                    return Err(fail("too-many-rows", format!("{} panel: line `{}` occupies {} rows, at most {} allowed", side, e.text, a.rows, m)));
                }
            }
        }
    }
    // (f) pairing at maximal distance: i-th removed shares its first row with the i-th added
    if cfg.get("max-line-distance") == Some("1") && !cfg.has("line-buffer-size") && numbered[0] && numbered[1] {
        for (a, e) in asm_l.iter().map(|a| (a, &left[a.exp_index])).filter(|(_, e)| e.kind == LK::Minus) {
            if let Some(b) = asm_r.iter().find(|b| right[b.exp_index].kind == LK::Plus && right[b.exp_index].sub == e.sub && right[b.exp_index].ord == e.ord) {
                if a.first_row != b.first_row {
                    return Err(fail("paired-lines-not-aligned", format!("removed line `{}` starts on output row {} but its partner (same position in the run) `{}` starts on row {}", e.text, a.first_row, right[b.exp_index].text, b.first_row)));
                }
            }
        }
    }
    Ok((any_wrapped, any_trunc, wide_near_edge))
}

fn r_cells_len(_row: &term::Row, r: &Panel) -> usize {
    r.cells.len()
}
fn gutter_len(row: &term::Row, r: &Panel) -> usize {
    // number of cells of the right gutter: from the cell at column r.start_col to the one at r.content_col
    let mut col = 0;
    let mut n = 0;
    for c in &row.cells {
        if col >= r.start_col && col < r.content_col {
            n += 1;
        }
        col += c.width;
    }
    // zero-width cells inside the gutter are not expected
    n
}

impl Prop for C07 {
    fn id(&self) -> &'static str {
        "C07"
    }
    fn cases(&self, tier: Tier) -> usize {
        match tier {
            Tier::Quick => 16_000,
            Tier::Thorough => 300_000,
        }
    }
    fn tape_len(&self, tier: Tier) -> usize {
        if tier == Tier::Quick {
            3000
        } else {
            9000
        }
    }
    fn rule(&self) -> String {
        "cases = two-way diffs whose lines straddle the panel boundaries (panel text width +-2, k x width +-2), with double-width and combining characters, tabs and empty lines; sub-hunks of 0-3 removed x 0-3 added lines x tagged side-by-side option set (widths 24-200 even and odd, wrap-max-lines 0/1/2/5/unlimited, wrap symbols, wrap-right-percent, number formats, markers, distance thresholds, tabs). Oracle (cells decoded by the terminal model, panels split at the gutters): (a) row width <= configured width; (b) the right panel starts at one column on every row; (c) removed styling only left, added only right, unchanged text equal on both sides of a row; (d) per side, first fragment + continuation rows (wrap symbols and right-alignment padding identified by the inline-hint tag and dropped) give back each expected line, in order, once; (e) a line is cut only when it used all allowed rows, ends in the truncation mark and shows a prefix; (f) at max-line-distance 1 the i-th removed and i-th added line of a run start on the same row. Non-trivial = >=1 wrapped or truncated line, or a double-width character at a panel edge; distinct by hash of (input, argv).".to_string()
    }
    fn assumptions(&self) -> Vec<String> {
        vec![
            "terminal model widths = unicode-width tables".to_string(),
            "line numbers are on (delta's side-by-side default), formats {nm} left / {np} right; the gutters delimit the panels".to_string(),
            "line-fill-method ansi is honoured only with a terminal on stdout: a quarter of the workers run with a pseudo-terminal (80x24) as stdout; a side whose gutter format has no number placeholder is judged as a whole (all fragments joined = all lines joined, blanks ignored; nothing cut under unlimited wrapping)".to_string(),
        ]
    }
    fn needs_binary(&self) -> bool {
        true
    }
    fn identities(&self) -> Vec<Vec<String>> {
        // every fourth worker has a pseudo-terminal as stdout (line-fill-method ansi, the default
        // on a terminal, is only honoured there)
        let v = |a: &[&str]| a.iter().map(|s| s.to_string()).collect::<Vec<_>>();
        vec![v(&["git", "diff"]), v(&["git", "diff"]), v(&["git", "diff"]), v(&["git", "diff", "@pty"])]
    }
    fn check(&self, t: &mut Tape, ctx: &mut Ctx) -> Verdict {
        let tty = crate::runner::identity_wants_tty(&ctx.identity);
        let (case, cfg) = gen(t, ctx.tier, tty);
        ctx.class_if(tty, "stdout-is-a-terminal");
        ctx.class_if(tty && cfg.get("line-fill-method") != Some("spaces"), "ansi-fill");
        ctx.class_if(cfg.get("line-numbers-right-format").map(|f| rows::placeholders(f).is_empty()).unwrap_or(false) || cfg.get("line-numbers-left-format").map(|f| rows::placeholders(f).is_empty()).unwrap_or(false), "gutter-without-number");
        let input = case.bytes();
        let out = match exec::run_cfg(&cfg, ctx, &input) {
            Ok(o) => o,
            Err(mut f) => {
                f.detail = json!({"case": exec::case_json(&cfg, &input)});
                f.traits = crate::props::c03::failure_traits(&cfg, &input);
                return Verdict::Fail(f);
            }
        };
        match evaluate(&case, &cfg, &out) {
            Ok((wrapped, trunc, wide)) => {
                ctx.class_if(wrapped, "wrapped-line");
                ctx.class_if(trunc, "truncated-line");
                ctx.class_if(wide, "wide-char-at-edge");
                if wrapped || trunc || wide {
                    let mut h = fnv(&input);
                    h = fnv_add(h, &cfg.fingerprint().to_le_bytes());
                    ctx.nontrivial(h);
                    if ctx.want_sample() {
                        ctx.sample(json!({"argv": cfg.base_args(), "input": exec::printable(&input[..input.len().min(1200)]), "output_visible": term::visible_text(&out).chars().take(2000).collect::<String>()}));
                    }
                }
                // (the binary cross-check runs delta on pipes: not comparable with a terminal run)
                if ctx.want_xcheck() && !tty && cfg.gitconfig.is_none() && cfg.env.current_dir.is_none() {
                    ctx.xchecks.push(json!({"argv": cfg.args(None), "env": exec::env_from_spec(&cfg.env), "cwd": cfg.env.current_dir,
                        "identity": ctx.identity, "input_hex": exec::hex(&input), "out_hash": format!("{:016x}", fnv(&out))}));
                }
                Verdict::Pass
            }
            Err(mut f) => {
                f.detail = json!({"case": exec::case_json(&cfg, &input), "output_printable": exec::printable(&out[..out.len().min(8000)])});
                f.traits = crate::props::c03::failure_traits(&cfg, &input);
                if String::from_utf8_lossy(&input).chars().any(|c| unicode_width::UnicodeWidthChar::width(c) == Some(2)) {
                    f.traits.push("double-width-char".to_string());
                }
                Verdict::Fail(f)
            }
        }
    }
    fn supervisor_phase(&self, sup: &mut Sup) {
        crate::xcheck::binary_crosscheck(sup, false);
    }
}
