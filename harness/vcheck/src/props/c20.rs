//! C20 — calling-process detection gives the same answer under every thread schedule.
//!
//! The real binary (built with the guarded ordering points of src/utils/process.rs) is run
//! under forced interleavings of the background determination with the main thread's
//! publication of a known command and its queries.  The answer each query got is observed
//! through behaviour that depends on it (grep / blame / show / word-diff rendering).
use std::time::Duration;

use serde_json::{json, Value};

use crate::exec::{self, BinRun};
use crate::gen::text;
use crate::runner::{verif_root, Ctx, Failure, Prop, Sup, Tier, Verdict};
use crate::tape::{fnv, fnv_add, Tape};

pub struct C20;

const BG: [&str; 5] = ["bg:start", "bg:determined", "bg:locked", "bg:stored", "bg:done"];
const SET: [&str; 4] = ["set:before-lock", "set:locked", "set:stored", "set:done"];

#[derive(Clone, Debug)]
struct Scenario {
    name: &'static str,
    /// argv of the process delta is a child of (what the background thread will find)
    parent: Vec<String>,
    /// delta's own arguments after the options (a launched command), if any
    launched: Vec<String>,
    /// stdin (guess scenarios) or the stub command's stdout (known scenarios)
    content: Vec<u8>,
    /// delta's own options (in front of a launched command)
    opts: Vec<String>,
}

fn sv(a: &[&str]) -> Vec<String> {
    a.iter().map(|s| s.to_string()).collect()
}

fn grep_lines(t: &mut Tape) -> Vec<u8> {
    let n = t.range(1, 6);
    let mut s = String::new();
    for i in 0..n {
        s.push_str(&format!("src/{}.rs:{}:let foo = {}; // {}\n", text::ident(t), 3 + i * 7, t.below(100), text::ident(t)));
    }
    s.into_bytes()
}

fn blame_lines(t: &mut Tape) -> Vec<u8> {
    let n = t.range(1, 6);
    let mut s = String::new();
    for i in 0..n {
        let h = if i % 2 == 0 { "ab12cd34" } else { "99ffee00" };
        s.push_str(&format!("{} (Ann Author 2021-03-04 10:11:12 +0100 {:>2}) fn {}() {{ let x = \"{}\"; }}\n", h, i + 1, text::ident(t), text::ident(t)));
    }
    s.into_bytes()
}

fn rust_file(t: &mut Tape) -> Vec<u8> {
    let n = t.range(1, 6);
    let mut s = String::new();
    for _ in 0..n {
        s.push_str(&format!("pub fn {}(x: u32) -> String {{ format!(\"{{}}\", x + {}) }}\n", text::ident(t), t.below(50)));
    }
    s.into_bytes()
}

fn word_diff(t: &mut Tape) -> Vec<u8> {
    let a = text::ident(t);
    format!("diff --git a/f.rs b/f.rs\nindex 1..2 100644\n--- a/f.rs\n+++ b/f.rs\n@@ -1,2 +1,2 @@\n let {} = \x1b[31m[-old-]\x1b[m\x1b[32m{{+new+}}\x1b[m;\n-gone {}\n+here {}\n", a, text::ident(t), text::ident(t)).into_bytes()
}

fn rg_json(t: &mut Tape) -> Vec<u8> {
    let n = t.range(1, 5);
    let path = format!("src/{}.rs", text::ident(t));
    let mut out = format!("{}\n", json!({"type":"begin","data":{"path":{"text":path}}}));
    for i in 0..n {
        let text = format!("let foo = {};\n", text::ident(t));
        out.push_str(&format!("{}\n", json!({"type":"match","data":{"path":{"text":path},"lines":{"text":text},"line_number":i+1,"absolute_offset":i*10,"submatches":[{"match":{"text":"foo"},"start":4,"end":7}]}})));
    }
    out.push_str(&format!("{}\n", json!({"type":"end","data":{"path":{"text":path},"binary_offset":null,"stats":{"elapsed":{"secs":0,"nanos":1,"human":"0s"},"searches":1,"searches_with_match":1,"bytes_searched":1,"bytes_printed":1,"matched_lines":n,"matches":n}}})));
    out.into_bytes()
}

fn gen_scenario(t: &mut Tape) -> Scenario {
    let mut sc = gen_scenario0(t);
    // option *values* and file names that look like a command delta could launch (`rg`, `git ... diff`):
    // delta is still only a pager here, so its caller is found by the background thread as ever
    let mut f = t.fork(11);
    // a launched git command with one of git's own options in front of the sub-command
    // (`delta git --no-pager grep ...`, `delta git -C dir blame ...`): still the launched command
    if sc.launched.first().map(|s| s == "git").unwrap_or(false) && sc.name != "known:delta-git-unparsed-subcommand" && f.chance(1, 3) {
        let extra: &[&str] = *f.pick(&[&["--no-pager"][..], &["-C", "."], &["-c", "core.abbrev=7"], &["--git-dir=.git"]]);
        for (i, e) in extra.iter().enumerate() {
            sc.launched.insert(1 + i, e.to_string());
        }
    }
    if sc.launched.is_empty() && f.chance(1, 3) {
        let extra: &[&str] = *f.pick(&[
            &["--default-language", "rg"][..],
            &["--features", "rg"],
            &["--file-modified-label", "git", "--file-added-label", "diff"],
            &["--file-renamed-label", "git", "--right-arrow", "grep"],
            &["--file-copied-label", "git", "--hunk-label", "blame"],
        ]);
        sc.opts.extend(extra.iter().map(|s| s.to_string()));
    }
    sc
}

fn gen_scenario0(t: &mut Tape) -> Scenario {
    let other_parents: [&[&str]; 5] = [&["git", "show"], &["git", "blame", "zz.py"], &["rg", "bar"], &["git", "verif-neutral"], &["git", "log", "-p"]];
    match t.weighted(&[2, 2, 2, 2, 2, 4, 3, 3, 3, 3]) {
        0 => {
            let o = if t.coin() { sv(&["--hyperlinks"]) } else { vec![] };
            Scenario { name: "guess:git-grep", parent: sv(&["git", "grep", "foo"]), launched: vec![], content: grep_lines(t), opts: o }
        }
        1 => Scenario { name: "guess:rg", parent: sv(&["rg", "foo"]), launched: vec![], content: grep_lines(t), opts: vec![] },
        2 => Scenario { name: "guess:git-blame", parent: sv(&["git", "blame", "src/x.rs"]), launched: vec![], content: blame_lines(t), opts: vec![] },
        3 => Scenario { name: "guess:git-show-file", parent: sv(&["git", "show", "HEAD:src/x.rs"]), launched: vec![], content: rust_file(t), opts: vec![] },
        4 => Scenario { name: "guess:git-diff-word-diff", parent: sv(&["git", "diff", "--word-diff=color"]), launched: vec![], content: word_diff(t), opts: vec![] },
        5 => Scenario { name: "known:delta-rg", parent: sv(other_parents[t.below(other_parents.len())]), launched: sv(&["rg", "foo"]), content: rg_json(t), opts: vec![] },
        6 => {
            // (with --hyperlinks the grep line writer asks for the calling process a second time
            // while rendering one line)
            let o = if t.coin() { sv(&["--hyperlinks"]) } else { vec![] };
            Scenario { name: "known:delta-git-grep", parent: sv(other_parents[t.below(other_parents.len())]), launched: sv(&["git", "grep", "foo"]), content: grep_lines(t), opts: o }
        }
        8 => {
            // a launched word diff: the word-diff test is the first question delta asks about its
            // caller (side-by-side and line numbers are switched off for word diffs)
            let o = t.ps(&["--side-by-side", "--line-numbers", "--side-by-side --line-numbers"]).split(' ').map(|s| s.to_string()).collect();
            Scenario { name: "known:delta-git-diff-word-diff", parent: sv(other_parents[t.below(other_parents.len())]), launched: sv(&["git", "diff", "--word-diff=color"]), content: word_diff(t), opts: o }
        }
        9 => {
            // a launched git command that delta does not parse (nothing is published for it):
            // the queries must still be answered - by whatever the background thread finds - under
            // every schedule
            let l = *t.pick(&[&["git", "diff-tree", "-p", "HEAD"][..], &["git", "format-patch", "--stdout", "-1"], &["git", "stash", "show", "-p"], &["git", "range-diff", "a...b"]]);
            let a = text::ident(t);
            let content = format!("diff --git a/f.rs b/f.rs\nindex 1..2 100644\n--- a/f.rs\n+++ b/f.rs\n@@ -1,3 +1,3 @@ fn {}()\n let {} = 1;\n-gone {}\n+here {}\n", a, text::ident(t), text::ident(t), text::ident(t)).into_bytes();
            Scenario { name: "known:delta-git-unparsed-subcommand", parent: sv(other_parents[t.below(other_parents.len())]), launched: sv(l), content, opts: vec![] }
        }
        _ => Scenario { name: "known:delta-git-blame", parent: sv(other_parents[t.below(other_parents.len())]), launched: sv(&["git", "blame", "src/x.rs"]), content: blame_lines(t), opts: vec![] },
    }
}

struct Runner {
    delta: std::path::PathBuf,
    stub_dir: std::path::PathBuf,
    trace: std::path::PathBuf,
    script: std::path::PathBuf,
    content_file: std::path::PathBuf,
    runs: u64,
}

struct Obs {
    status: Option<i32>,
    stdout: Vec<u8>,
    stderr: String,
    trace: Vec<String>,
    timed_out: bool,
}

impl Runner {
    fn run(&mut self, sc: &Scenario, parent: &[String], sched: &[String]) -> std::io::Result<Obs> {
        let _ = std::fs::remove_file(&self.trace);
        let mut args = sv(&["--no-gitconfig", "--paging=never"]);
        args.extend(sc.opts.iter().cloned());
        args.extend(sc.launched.iter().cloned());
        let mut env = vec![("DELTA_VERIF_TRACE".to_string(), self.trace.display().to_string()), ("DELTA_VERIF_SCHED_TIMEOUT_MS".to_string(), "1500".to_string())];
        if !sched.is_empty() {
            env.push(("DELTA_VERIF_SCHED".to_string(), sched.join(",")));
        }
        let stdin = if sc.launched.is_empty() {
            sc.content.clone()
        } else {
            std::fs::write(&self.content_file, &sc.content)?;
            let sec = json!({"stdout_file": self.content_file, "status": 0});
            std::fs::write(&self.script, serde_json::to_string(&json!({"by_name": {"git": sec.clone(), "rg": sec}})).unwrap())?;
            env.push(("STUBTOOL_SCRIPT".to_string(), self.script.display().to_string()));
            exec::stub_path(&self.stub_dir, &sc.launched[0]);
            Vec::new()
        };
        self.runs += 1;
        let o = exec::run_bin(&BinRun { delta: &self.delta, parent: parent.to_vec(), args, env, cwd: None, stdin, timeout: Duration::from_secs(12), stub_dir: self.stub_dir.clone() })?;
        let trace = std::fs::read_to_string(&self.trace).unwrap_or_default().lines().map(|s| s.to_string()).collect();
        Ok(Obs { status: o.status, stdout: o.stdout, stderr: String::from_utf8_lossy(&o.stderr).to_string(), trace, timed_out: o.timed_out })
    }
}

// ---------------------------------------------------------------------------------------------
// reference model of the protocol (shared cell guarded by a mutex, Pending sentinel, condvar
// wait-while-pending, known-beats-guessed): decides which orders of the ordering points are
// feasible, and what every query must return

#[derive(Clone, Debug, PartialEq)]
enum Op {
    Point(String),
    Lock,
    Unlock,
    StoreGuess,
    StoreKnown,
    /// wait while the cell is Pending (releasing the mutex), then read it
    WaitRead,
}

#[derive(Clone, Copy, Debug, PartialEq)]
enum Cell {
    Pending,
    Guess,
    Known,
}

#[derive(Clone)]
struct Model {
    prog: [Vec<Op>; 2], // 0 = main, 1 = background
    pc: [usize; 2],
    mutex: Option<usize>,
    waiting: [bool; 2], // in the condvar wait (mutex released)
    cell: Cell,
    known: bool,
    reads: Vec<Cell>,
}

impl Model {
    fn new(known: bool, q: usize) -> Model {
        let p = |s: &str| Op::Point(s.to_string());
        let mut main = Vec::new();
        if known {
            main.extend([p(SET[0]), Op::Lock, p(SET[1]), Op::StoreKnown, p(SET[2]), p(SET[3]), Op::Unlock]);
        }
        for k in 1..=q {
            main.extend([p(&format!("query#{}", k)), Op::Lock, Op::WaitRead, Op::Unlock]);
        }
        let bg = vec![p(BG[0]), p(BG[1]), Op::Lock, p(BG[2]), Op::StoreGuess, p(BG[3]), p(BG[4]), Op::Unlock];
        Model { prog: [main, bg], pc: [0, 0], mutex: None, waiting: [false, false], cell: Cell::Pending, known: false, reads: Vec::new() }
    }
    /// run thread `t` until it stands at a point, blocks or ends; returns true if it moved
    fn run(&mut self, t: usize) -> bool {
        let mut moved = false;
        loop {
            let op = match self.prog[t].get(self.pc[t]) {
                Some(op) => op.clone(),
                None => return moved,
            };
            match op {
                Op::Point(_) => return moved,
                Op::Lock => {
                    if self.mutex.is_some() {
                        return moved;
                    }
                    self.mutex = Some(t);
                }
                Op::Unlock => self.mutex = None,
                Op::StoreGuess => {
                    if !self.known {
                        self.cell = Cell::Guess;
                    }
                }
                Op::StoreKnown => {
                    self.cell = Cell::Known;
                    self.known = true;
                }
                Op::WaitRead => {
                    if self.waiting[t] {
                        // woken: needs the mutex back and a value
                        if self.cell == Cell::Pending || self.mutex.is_some() {
                            return moved;
                        }
                        self.mutex = Some(t);
                        self.waiting[t] = false;
                    } else if self.cell == Cell::Pending {
                        self.waiting[t] = true;
                        self.mutex = None;
                        return true;
                    }
                    self.reads.push(self.cell);
                }
            }
            self.pc[t] += 1;
            moved = true;
        }
    }
    fn settle(&mut self) {
        loop {
            let a = self.run(0);
            let b = self.run(1);
            if !a && !b {
                break;
            }
        }
    }
    fn at_point(&self, t: usize) -> Option<&str> {
        match self.prog[t].get(self.pc[t]) {
            Some(Op::Point(n)) => Some(n.as_str()),
            _ => None,
        }
    }
    fn main_done(&self) -> bool {
        self.pc[0] >= self.prog[0].len()
    }
}

/// A feasible total order of the ordering points, built by walking the model: at every step one
/// of the threads standing at a point is let through (`choose` picks among 1 or 2 candidates).
/// Returns the order, the values the queries read in the model, and how many of the steps had a choice.
fn walk(known: bool, q: usize, mut choose: impl FnMut(usize) -> usize) -> Result<(Vec<String>, Vec<Cell>), String> {
    let mut m = Model::new(known, q);
    let mut order = Vec::new();
    loop {
        m.settle();
        if m.main_done() {
            break; // the process exits; what the background thread still does is not observable
        }
        let cands: Vec<usize> = (0..2).filter(|t| m.at_point(*t).is_some()).collect();
        if cands.is_empty() {
            return Err(format!("the model deadlocks after {:?}", order));
        }
        let t = cands[choose(cands.len()).min(cands.len() - 1)];
        order.push(m.at_point(t).unwrap().to_string());
        m.pc[t] += 1;
    }
    Ok((order, m.reads))
}

/// all feasible orders (depth-first over the choices), up to `limit`
fn all_walks(known: bool, q: usize, limit: usize) -> Vec<(Vec<String>, Vec<Cell>)> {
    fn rec(mut m: Model, order: Vec<String>, out: &mut Vec<(Vec<String>, Vec<Cell>)>, limit: usize) {
        if out.len() >= limit {
            return;
        }
        m.settle();
        if m.main_done() {
            out.push((order, m.reads.clone()));
            return;
        }
        for t in 0..2 {
            if let Some(name) = m.at_point(t).map(|s| s.to_string()) {
                let mut m2 = m.clone();
                m2.pc[t] += 1;
                let mut o2 = order.clone();
                o2.push(name);
                rec(m2, o2, out, limit);
            }
        }
    }
    let mut out = Vec::new();
    rec(Model::new(known, q), Vec::new(), &mut out, limit);
    out
}

impl Prop for C20 {
    fn watchdog_secs(&self, tier: Tier) -> u64 {
        // (a case forces dozens of schedules on the real binary, each with its own time limit)
        if tier == Tier::Quick {
            180
        } else {
            600
        }
    }
    fn id(&self) -> &'static str {
        "C20"
    }
    fn cases(&self, tier: Tier) -> usize {
        match tier {
            Tier::Quick => 1000,
            Tier::Thorough => 6_000,
        }
    }
    fn tape_len(&self, _t: Tier) -> usize {
        400
    }
    fn rule(&self) -> String {
        "cases = scenario x generated input x forced schedules of the real binary (built with the ordering points of src/utils/process.rs): guess scenarios (parent process `git grep`, `rg`, `git blame f.rs`, `git show REV:f.rs`, `git diff --word-diff`, input on stdin) and known scenarios (`delta rg ..`, `delta git grep ..`, `delta git blame ..`, `delta -s|-n git diff --word-diff`, `delta git <subcommand delta does not parse>` with a stub command, under a parent process of another kind). The background thread's units [start] [determined] [locked, stored, done] are merged at generated positions into the main thread's sequence [set:before-lock] [set:locked, set:stored, set:done] [query#1] .. [query#Q] (Q learnt from a trace); per case: the critical section of the background thread placed in front of EVERY main unit and after the last one, both with an early and a late start, plus random position triples; only merges feasible under the mutex and the wait-while-pending rule are generated (a reference model of the protocol decides feasibility). Oracle: under every schedule the process exits 0 within the time limit (no query blocks forever) and stdout is byte-identical to that of the schedule 'background thread first'; for known scenarios it is also identical to the output under a neutral parent (the background guess never shows) and to the output of delta run as the pager of that command with the same options (every query, also the first, sees the launched command); the schedule must have been realised according to the recorded trace, else the run is counted inconclusive. Sensitivity witness per case: the output under a parent of another kind differs (guess scenarios). Non-trivial = known scenario with the background critical section between two queries, or guess scenario with query#1 waiting for the background thread; distinct by hash of (scenario, input, schedule).".to_string()
    }
    fn assumptions(&self) -> Vec<String> {
        vec![
            "the ordering points only delay threads; with DELTA_VERIF_SCHED unset they do nothing".to_string(),
            "the calling process seen by a query is observed through rendering that depends on it".to_string(),
            "the lock makes each critical section atomic, so schedules are merges of critical sections and pre-lock points; weak-memory effects are outside what forced schedules on x86-64 can show".to_string(),
        ]
    }
    fn needs_binary(&self) -> bool {
        true
    }
    fn fuzz_decoders(&self) -> Vec<&'static str> {
        // decided on separate processes (faults / schedules): in-process coverage feedback has
        // nothing to steer, see DESIGN §10
        Vec::new()
    }
    fn check(&self, t: &mut Tape, ctx: &mut Ctx) -> Verdict {
        let sc = gen_scenario(t);
        let dir = ctx.scratch.join(format!("c20-{}-{}", std::process::id(), ctx.shard));
        let _ = std::fs::create_dir_all(dir.join("stubs/home"));
        let mut r = Runner { delta: verif_root().join("target/bin/release/delta"), stub_dir: dir.join("stubs"), trace: dir.join("trace.txt"), script: dir.join("script.json"), content_file: dir.join("content.bin"), runs: 0 };
        let known = !sc.launched.is_empty();
        // (a launched command that delta does not parse is not published: like a guess scenario as
        // far as the protocol goes, like a known one for the witnesses)
        let publishes = known && !sc.name.contains("unparsed");
        let detail = |extra: Value| json!({"scenario": sc.name, "parent_process": sc.parent, "delta_args": sc.launched, "content": exec::printable(&sc.content), "observation": extra});
        let fail = |sig: &str, msg: String, extra: Value| Verdict::Fail(Failure::new(format!("C20:{}:{}", sc.name, sig), format!("[{}] {}", sc.name, msg)).with(detail(extra)).traits(vec![format!("scenario:{}", sc.name)]));
        macro_rules! run {
            ($parent:expr, $sched:expr) => {
                match r.run(&sc, $parent, $sched) {
                    Ok(o) => o,
                    Err(e) => return Verdict::Fail(Failure::new("INFRASTRUCTURE:spawn", format!("cannot run the binary: {}", e))),
                }
            };
        }
        // 1. free run: learn the number of queries
        let free = run!(&sc.parent, &[]);
        if free.timed_out {
            return fail("blocked-forever", "without any forced schedule the process did not finish within 12 s".to_string(), json!({"trace": free.trace}));
        }
        let q = free.trace.iter().filter(|l| l.starts_with("query#")).count();
        if q == 0 {
            return fail("INFRASTRUCTURE-no-queries", format!("no query recorded in the trace (exit {:?}, stderr {})", free.status, free.stderr), json!({"trace": free.trace}));
        }
        // 2. reference: the background thread runs first
        // main thread's items: the publication of a known command (one critical section with
        // ordering points inside) and the queries (one pre-lock point each)
        let mut items: Vec<Vec<String>> = Vec::new();
        if publishes {
            items.push(SET.iter().map(|s| s.to_string()).collect());
        }
        for k in 1..=q {
            items.push(vec![format!("query#{}", k)]);
        }
        let n = items.len();
        let bg_sec: Vec<String> = BG[1..].iter().map(|s| s.to_string()).collect();
        let bg_first: Vec<String> = std::iter::once(BG[0].to_string()).chain(bg_sec.iter().cloned()).chain(items.iter().flatten().cloned()).collect();
        let reference = run!(&sc.parent, &bg_first);
        if reference.timed_out || reference.status != Some(0) {
            return fail("reference-run", format!("schedule 'background first': exit {:?}, timed out {}, stderr {}", reference.status, reference.timed_out, reference.stderr), json!({"trace": reference.trace}));
        }
        // 3. witnesses
        let neutral = sv(&["git", "verif-neutral"]);
        if known {
            let o = run!(&neutral, &[]);
            // and it is what they see: delta as the *pager* of that very command (same options, the
            // command's output on stdin, the command as the parent process) renders the same
            let as_pager = Scenario { name: sc.name, parent: sc.launched.clone(), launched: vec![], content: sc.content.clone(), opts: sc.opts.clone() };
            let p = match r.run(&as_pager, &as_pager.parent, &[]) {
                Ok(o) => o,
                Err(e) => return Verdict::Fail(Failure::new("INFRASTRUCTURE:spawn", format!("cannot run the binary: {}", e))),
            };
            if !p.timed_out && p.status == Some(0) && p.stdout != reference.stdout {
                return fail("launched-command-not-seen", format!("`delta {} {}` renders the command's output differently from delta run as the pager of `{}` with the same options: some query did not see the launched command", sc.opts.join(" "), sc.launched.join(" "), sc.launched.join(" ")), json!({"launched": exec::printable(&reference.stdout[..reference.stdout.len().min(800)]), "as_pager": exec::printable(&p.stdout[..p.stdout.len().min(800)])}));
            }
            if o.stdout != reference.stdout {
                return fail("guess-shows-through", format!("`delta {}` renders differently under the parent process `{}` than under a neutral parent: the launched command is not what queries see", sc.launched.join(" "), sc.parent.join(" ")), json!({"under_parent": exec::printable(&reference.stdout[..reference.stdout.len().min(800)]), "under_neutral_parent": exec::printable(&o.stdout[..o.stdout.len().min(800)])}));
            }
        } else {
            let o = run!(&neutral, &[]);
            if o.stdout == reference.stdout {
                // the observation would be blind: not a property violation, but the case says nothing
                return Verdict::Skip("rendering does not depend on the calling process for this input");
            }
        }
        // 4. the reference model must agree that the answer is schedule-independent
        let want = if publishes { Cell::Known } else { Cell::Guess };
        for (order, reads) in all_walks(publishes, q.min(4), 3000) {
            if reads.iter().any(|r| *r != want) {
                return Verdict::Fail(Failure::new("INFRASTRUCTURE:model", format!("the reference model itself lets a query read {:?} under {:?}", reads, order)));
            }
        }
        // 5. the schedules.  Between two ordering points both threads run freely, so a schedule
        // only lists orders that every resolution of those races realises: the background
        // thread's critical section [determined, locked, stored, done] is kept together and is
        // gated either on the ARRIVAL of the main thread at its next item (`@p`: the previous
        // item is then complete) or not at all (the race for the lock decides on which side of
        // the previous item it falls); in the contention variants a pre-lock point of one thread
        // is let through while the other thread is inside its critical section.
        let mut scheds: Vec<(String, Vec<String>)> = Vec::new();
        // in guess scenarios query#1 cannot return before the background thread has stored
        let last = if publishes { n } else { 1 };
        for i in 0..=last {
            let before: Vec<String> = items[..i].iter().flatten().cloned().collect();
            let after: Vec<String> = items[i..].iter().flatten().cloned().collect();
            // where the background thread starts: at the very beginning, or late
            for early_start in [true, false] {
                let mut head: Vec<String> = Vec::new();
                if early_start {
                    head.push(BG[0].to_string());
                    head.extend(before.iter().cloned());
                } else {
                    head.extend(before.iter().cloned());
                    head.push(BG[0].to_string());
                }
                // racy-adjacent
                let mut s1 = head.clone();
                s1.extend(bg_sec.iter().cloned());
                s1.extend(after.iter().cloned());
                scheds.push((format!("adjacent:{}", i), s1));
                if i < n {
                    let first = items[i][0].clone();
                    // strictly between item i and item i+1
                    if publishes || i == 0 {
                        let mut s2 = head.clone();
                        s2.push(format!("@{}", first));
                        s2.extend(bg_sec.iter().cloned());
                        s2.extend(after.iter().cloned());
                        scheds.push((format!("between:{}", i), s2));
                    }
                    // the main thread arrives at the lock while the background thread holds it
                    if !(publishes || i == 0) {
                        continue;
                    }
                    let mut s3 = head.clone();
                    s3.push(format!("@{}", first));
                    s3.push(BG[1].to_string());
                    s3.push(BG[2].to_string());
                    s3.push(first.clone());
                    s3.push(BG[3].to_string());
                    s3.push(BG[4].to_string());
                    s3.extend(after.iter().skip(1).cloned());
                    scheds.push((format!("main-contends:{}", i), s3));
                }
            }
        }
        if publishes {
            // the background thread arrives at the lock while set_calling_process holds it
            for at in 2..=3 {
                let mut s4: Vec<String> = vec![BG[0].to_string()];
                s4.extend(SET[..at].iter().map(|s| s.to_string()));
                s4.push(BG[1].to_string());
                s4.extend(SET[at..].iter().map(|s| s.to_string()));
                s4.extend(BG[2..].iter().map(|s| s.to_string()));
                s4.extend(items[1..].iter().flatten().cloned());
                scheds.push((format!("bg-contends:{}", at), s4));
            }
        }
        // a slow background determination: a phantom entry that no thread ever reaches holds
        // `bg:determined` back until the sequencer gives up on it (after the timeout, here
        // 1.5 s), while the first query waits - a query that stops waiting early would hand out
        // the unfinished answer
        let slow = !publishes && t.chance(1, if ctx.tier == Tier::Quick { 6 } else { 2 });
        let slow_sched: Vec<String> = vec!["query#1".to_string(), BG[0].to_string(), "phantom:never".to_string(), BG[1].to_string()];
        // quick tier: a generated subset of the positions (all of them in the thorough tier)
        if ctx.tier == Tier::Quick && scheds.len() > 24 {
            let mut keep: Vec<(String, Vec<String>)> = Vec::new();
            for _ in 0..24 {
                let i = t.below(scheds.len());
                keep.push(scheds[i].clone());
            }
            scheds = keep;
        }
        scheds.sort();
        scheds.dedup();
        if slow {
            scheds.push(("slow-background".to_string(), slow_sched));
        }
        let mut interesting = 0u64;
        for (kind, sched) in &scheds {
            let sched = sched.clone();
            let t0 = std::time::Instant::now();
            let o = run!(&sc.parent, &sched);
            if std::env::var_os("VERIF_C20_DEBUG").is_some() {
                use std::io::Write;
                if let Ok(mut f) = std::fs::OpenOptions::new().create(true).append(true).open("/tmp/c20-debug.log") {
                    let _ = writeln!(f, "{} {:.2}s sched={} trace={}", sc.name, t0.elapsed().as_secs_f64(), sched.join(","), o.trace.join(","));
                }
            }
            let obs = |o: &Obs| json!({"schedule": sched, "trace": o.trace, "exit": o.status, "stderr": o.stderr.chars().take(300).collect::<String>()});
            if o.timed_out {
                return fail("blocked-forever", format!("under the schedule {:?} the process did not finish within 12 s (every ordering point gives up after 1.5 s, so a thread of delta is blocked)", sched), obs(&o));
            }
            if o.status != Some(0) {
                return fail("exit-status", format!("under the schedule {:?} delta exited with {:?}: {}", sched, o.status, o.stderr.chars().take(300).collect::<String>()), obs(&o));
            }
            // realised? the scheduled points that were passed must have been passed in order
            let listed: Vec<&String> = sched.iter().filter(|p| !p.starts_with('@')).collect();
            let passed: Vec<&String> = o.trace.iter().filter(|l| listed.contains(l)).collect();
            let realised = !o.trace.iter().any(|l| l.starts_with("TIMEOUT") && (kind != "slow-background" || l != "TIMEOUT bg:determined")) && passed.iter().zip(listed.iter()).all(|(a, b)| a == b) && listed.iter().filter(|p| p.starts_with("query#") || p.starts_with("set:")).all(|p| passed.contains(p));
            if o.stdout != reference.stdout {
                let what = if known { "the launched command was not what every query saw" } else { "a query saw an unfinished or different answer" };
                return fail(
                    "answer-depends-on-schedule",
                    format!("under the schedule {:?} the output differs from that of the schedule 'background thread first': {}", sched, what),
                    json!({"schedule": sched, "trace": o.trace, "realised": realised, "output": exec::printable(&o.stdout[..o.stdout.len().min(800)]), "reference_output": exec::printable(&reference.stdout[..reference.stdout.len().min(800)])}),
                );
            }
            if !realised {
                *ctx.notes.entry("schedules_not_realised".to_string()).or_insert(0) += 1;
                *ctx.notes.entry(format!("not_realised:{}", kind.split(':').next().unwrap())).or_insert(0) += 1;

                continue;
            }
            *ctx.notes.entry("schedules_realised".to_string()).or_insert(0) += 1;
            ctx.class(&format!("schedule:{}", kind.split(':').next().unwrap()));
            // where does the background thread's critical section fall?
            let ib = sched.iter().position(|p| p == "bg:locked");
            let iq1 = sched.iter().position(|p| p == "query#1");
            let is_interesting = match (ib, iq1) {
                (Some(b), Some(q1)) => b > q1,
                (None, _) => true, // the background thread never got the lock before main was done
                _ => false,
            };
            if is_interesting {
                interesting += 1;
                let mut h = fnv(sc.name.as_bytes());
                h = fnv_add(h, &sc.content);
                h = fnv_add(h, sched.join(",").as_bytes());
                ctx.nontrivial(h);
                if ctx.want_sample() {
                    ctx.sample(json!({"scenario": sc.name, "parent_process": sc.parent, "delta_args": sc.launched, "schedule_kind": kind, "schedule": sched, "trace": o.trace, "queries": q}));
                }
            }
        }
        let _ = std::fs::remove_dir_all(&dir);
        *ctx.notes.entry("binary_runs".to_string()).or_insert(0) += r.runs;
        ctx.class(&format!("scenario:{}", sc.name));
        ctx.class(&format!("queries:{}", if q <= 4 { "1-4" } else if q <= 8 { "5-8" } else { "9+" }));
        ctx.class_if(interesting > 0, "background-section-between-or-during-queries");
        Verdict::Pass
    }
    fn supervisor_phase(&self, _sup: &mut Sup) {}
}
