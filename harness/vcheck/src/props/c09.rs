//! C09 — output lines are self-contained, well-formed terminal text.
use serde_json::json;

use crate::exec;
use crate::gen::color;
use crate::gen::config::Cfg;
use crate::gen::diff::{gen_case, lines_to_bytes, GenOpts, Role};
use crate::gen::other;
use crate::gen::text;
use crate::runner::{Ctx, Failure, Prop, Sup, Tier, Verdict};
use crate::tape::{fnv, fnv_add, Tape};
use crate::term;

pub struct C09;

fn gen_cfg(t: &mut Tape) -> Cfg {
    let mut c = crate::props::c10::gen_cfg(t);
    c.gitconfig = None;
    // bias to narrow widths, truncation, wrapping, hyperlinks
    if t.chance(1, 2) {
        c.set("width", &t.range(10, 60).to_string());
    }
    if t.chance(1, 3) {
        c.set("max-line-length", t.ps(&["20", "35", "60", "7"]));
    }
    if t.chance(1, 3) {
        c.flag("hyperlinks");
        c.env.current_dir = Some("/work/repo".to_string());
        if t.coin() {
            c.set("hyperlinks-file-link-format", t.ps(&["file://{path}", "vscode://file/{path}:{line}", "x://{host}/{path}#{line}"]));
        }
        if t.coin() {
            c.set("hyperlinks-commit-link-format", "https://example.com/c/{commit}");
        }
    }
    if t.chance(1, 4) {
        c.flag("side-by-side");
        if t.coin() {
            c.set("wrap-max-lines", t.ps(&["0", "1", "5", "unlimited"]));
        }
    }
    if t.chance(1, 6) {
        c.set("zero-style", "raw");
    }
    if t.chance(1, 8) {
        c.set("map-styles", "bold purple => red bold, bold cyan => syntax \"#003300\"");
    }
    c
}

pub fn identities() -> Vec<Vec<String>> {
    let v = |a: &[&str]| a.iter().map(|s| s.to_string()).collect::<Vec<_>>();
    vec![v(&["git", "diff"]), v(&["git", "diff"]), v(&["git", "grep", "-n", "x"]), v(&["git", "blame", "src/main.rs"]), v(&["git", "diff"]), v(&["git", "diff", "@pty"]), v(&["git", "grep", "-n", "x"]), v(&["git", "blame", "src/main.rs", "@pty"])]
}

/// moved-line colourings: balanced, set-only SGR segments as git emits them
fn recolor_moved(t: &mut Tape, input: &[u8]) -> Vec<u8> {
    let s = String::from_utf8_lossy(input).into_owned();
    let mut out = String::new();
    for l in s.split_inclusive('\n') {
        let body = l.trim_end_matches('\n');
        let is_change = (body.starts_with('-') && !body.starts_with("---")) || (body.starts_with('+') && !body.starts_with("+++"));
        if is_change && !body.contains('\x1b') && t.chance(1, 4) {
            let code = t.ps(&["1;35", "1;36", "1;34", "1;33", "2;35", "3;36", "38;5;208", "1;38;2;10;200;30", "7;35", "35;48;5;17"]);
            let (m, rest) = body.split_at(1);
            out.push_str(&format!("\x1b[{}m{}\x1b[m\x1b[{}m{}\x1b[m", code, m, code, rest));
        } else {
            out.push_str(body);
        }
        if l.ends_with('\n') {
            out.push('\n');
        }
    }
    out.into_bytes()
}

/// Program output as `ls --color --hyperlink`, ripgrep with hyperlinks or a colourful build log
/// write it: every line balanced (each rendition set is reset, each link opened is closed), but
/// dense with sequences; delta passes such lines through (and cuts them at max-line-length).
fn decorated_text(t: &mut Tape) -> Vec<u8> {
    let o = text::TextOpts { allow_markerlike: false, allow_long: false, ..text::TextOpts::all() };
    let n = t.range(2, 14);
    // output of a tool run on a file with CRLF line ends (`grep --color`, `git grep --color`):
    // the CR comes before the closing reset when the match extends to the end of the line
    let crlf = t.chance(1, 3);
    let mut out = String::new();
    for _ in 0..n {
        let k = t.range(1, 12);
        let mut line = String::from("x");
        for _ in 0..k {
            line.push(' ');
            let tok = text::token(t, &o);
            let reset = *t.pick(&["\x1b[m", "\x1b[0m"]);
            match t.weighted(&[3, 4, 3, 4]) {
                0 => line.push_str(&tok),
                1 => {
                    let code = t.ps(&["31", "1;32", "01;34", "38;5;208", "48;2;1;2;3", "7", "4;35", "30;105"]);
                    line.push_str(&format!("\x1b[{}m{}{}", code, tok, reset));
                }
                2 => {
                    // every character coloured on its own
                    for (i, c) in tok.chars().enumerate() {
                        line.push_str(&format!("\x1b[3{}m{}{}", 1 + (i % 6), c, reset));
                    }
                }
                _ => {
                    // open link, rendition, text, reset, close link
                    let url = match t.weighted(&[3, 1]) {
                        0 => format!("file://host/home/user/{}", text::ident(t)),
                        _ => format!("https://example.com/{}", "very-long-path-segment/".repeat(t.range(3, 14))),
                    };
                    let st = *t.pick(&["\x1b\\", "\x07"]);
                    let inner = if t.coin() { format!("\x1b[01;34m{}{}", tok, reset) } else { tok.clone() };
                    line.push_str(&format!("\x1b]8;;{}{}{}\x1b]8;;{}", url, st, inner, st));
                }
            }
        }
        if crlf {
            match ["\x1b[m", "\x1b[0m"].iter().find(|r| line.ends_with(**r)) {
                Some(r) => line.insert(line.len() - r.len(), '\r'),
                None => line.push('\r'),
            }
        }
        out.push_str(&line);
        out.push('\n');
    }
    out.into_bytes()
}


/// The oracle: every terminated output line ends in the default rendition, with no hyperlink
/// open and the byte parser in ground state; no control sequence other than SGR, EL, OSC 8.
/// Ok(true) when some line has >= 4 rendition changes.
pub fn judge(cfg: &Cfg, input: &[u8], out: &[u8], ident: &[String]) -> Result<bool, Failure> {
    let sc = term::decode(out);
    let detail = || json!({"case": exec::case_json(cfg, input), "identity": ident});
    let mut busy = false;
    for (i, r) in sc.rows.iter().enumerate() {
        let line = || {
            let start = out.split(|b| *b == b'\n').nth(i).unwrap_or(b"");
            exec::printable(&start[..start.len().min(400)])
        };
        if !r.terminated {
            continue;
        }
        if r.end_in_sequence {
            return Err(Failure::new("C09:sequence-cut", format!("output line {} ends inside an escape sequence: `{}`", i + 1, line())).with(detail()).traits(crate::props::c03::failure_traits(cfg, input)));
        }
        if !r.end_sgr.is_default() {
            return Err(Failure::new("C09:rendition-leaks", format!("output line {} ends with a non-default rendition {:?}: `{}`", i + 1, r.end_sgr, line())).with(detail()).traits(crate::props::c03::failure_traits(cfg, input)));
        }
        if r.end_link_open {
            return Err(Failure::new("C09:hyperlink-left-open", format!("output line {} ends with an OSC 8 hyperlink still open: `{}`", i + 1, line())).with(detail()).traits(crate::props::c03::failure_traits(cfg, input)));
        }
        if let Some(c) = r.other_controls.first() {
            // raw-styled elements carry the input's own sequences: only SGR/EL/OSC 8 are generated
            return Err(Failure::new("C09:unexpected-control", format!("output line {} contains `{}`: `{}`", i + 1, c, line())).with(detail()).traits(crate::props::c03::failure_traits(cfg, input)));
        }
        if r.sgr_count >= 4 {
            busy = true;
        }
    }
    Ok(busy)
}

impl Prop for C09 {
    fn id(&self) -> &'static str {
        "C09"
    }
    fn identities(&self) -> Vec<Vec<String>> {
        identities()
    }
    fn cases(&self, tier: Tier) -> usize {
        match tier {
            Tier::Quick => 20_000,
            Tier::Thorough => 400_000,
        }
    }
    fn tape_len(&self, _t: Tier) -> usize {
        3000
    }
    fn rule(&self) -> String {
        "cases = git diff streams (all section kinds, commits), plain or coloured by the colouriser (balanced sequences by construction), with moved-line renditions on changed lines; coloured grep and blame streams under their calling-process identities; passed-through program output dense with balanced sequences (per-word and per-character renditions, OSC 8 links around styled text with short and very long URLs, both string terminators) under small max-line-length; x option sets biased to narrow widths, small max-line-length, wrapping/truncation in side-by-side, hyperlinks with several templates, decorations, raw styles, map-styles. Oracle (terminal model over stdout): at every newline the rendition is the default one, no OSC 8 hyperlink is open, the byte parser is in ground state; no control sequence other than SGR, EL and OSC 8 occurs. Non-trivial = some output line has >=2 rendition changes and the case involves a truncation mark, wrap symbol, fill, or hyperlink; distinct by hash of (input, argv).".to_string()
    }
    fn assumptions(&self) -> Vec<String> {
        vec![
            "input escape sequences are balanced (generated by the colouriser); unbalanced input is excluded by the statement".to_string(),
            "terminal model semantics of SGR/OSC 8".to_string(),
        ]
    }
    fn needs_binary(&self) -> bool {
        true
    }
    fn check(&self, t: &mut Tape, ctx: &mut Ctx) -> Verdict {
        let mut cfg = gen_cfg(t);
        let ident = ctx.identity.clone();
        let is_grep = ident.get(1).map(|s| s == "grep").unwrap_or(false);
        let is_blame = ident.get(1).map(|s| s == "blame").unwrap_or(false);
        let (input, kind): (Vec<u8>, &str) = if is_grep {
            // classic / coloured grep lines, or `rg --json` records (some of them multi-line, as
            // `rg --multiline` writes them), shown in either output type
            let rg_json = t.chance(1, 3);
            if t.coin() {
                cfg.set("grep-output-type", t.ps(&["ripgrep", "classic"]));
            }
            if rg_json {
                (other::rg_json_stream(t), "rg-json")
            } else {
                (other::grep_stream(t), "grep")
            }
        } else if is_blame {
            // formats that cut fields (a precision keeps the first N characters): what is cut may
            // be text wrapped in a commit hyperlink
            if t.coin() {
                cfg.set("blame-format", t.ps(&["{commit:<8.7} {author:<10.9} {timestamp:>14}", "{timestamp:<15.10} {author:.4} {commit:.3}", "{commit:^12.6}│{author:>8.2}", "{author:<15.14} {commit:<8}"]));
            }
            (other::blame_stream(t), "blame")
        } else if t.chance(1, 5) {
            // passed-through program output, cut at a small maximum line length
            if t.chance(3, 4) {
                cfg.set("max-line-length", t.ps(&["5", "11", "12", "20", "33", "64"]));
            }
            (decorated_text(t), "decorated-text")
        } else {
            let mut o = GenOpts::default_full();
            o.max_lines = 8;
            o.text.allow_long = true;
            o.text.long_tokens = 25;
            let case = gen_case(t, &o);
            let mut lines = case.render();
            let coloured = t.chance(2, 3);
            if coloured {
                let co = color::gen_opts(t);
                lines = color::colorize(&lines, &co);
            }
            // `git log --stat --color`: the histogram of a diffstat line is coloured (green +, red -);
            // under --relative-paths (with a GIT_PREFIX to work from) delta rewrites such lines
            if lines.iter().any(|l| matches!(l.role, Role::DiffStat)) && t.coin() {
                let long = t.coin();
                for l in lines.iter_mut() {
                    if let Role::DiffStat = l.role {
                        if let Some(bar) = l.text.rfind(" | ") {
                            let tail = l.text[bar + 3..].to_string();
                            let mut it = tail.splitn(2, ' ');
                            let (n, hist) = (it.next().unwrap_or(""), it.next().unwrap_or(""));
                            if !hist.is_empty() && hist.chars().all(|c| c == '+' || c == '-') {
                                let k = if long { 25 } else { 1 };
                                let plus = "+".repeat(hist.matches('+').count() * k);
                                let minus = "-".repeat(hist.matches('-').count() * k);
                                let wrap = |code: &str, s: &str| if s.is_empty() { String::new() } else { format!("\x1b[{}m{}\x1b[m", code, s) };
                                l.text = format!("{} | {} {}{}", &l.text[..bar], n, wrap("32", &plus), wrap("31", &minus));
                            }
                        }
                    }
                }
                if t.chance(2, 3) {
                    cfg.flag("relative-paths");
                    cfg.env.git_prefix = Some(t.ps(&["src/", "a/b/", "docs/"]).to_string());
                }
                ctx.class("coloured-diffstat");
            }
            let mut b = lines_to_bytes(&lines, true);
            if !coloured && t.chance(1, 3) {
                b = recolor_moved(t, &b);
            }
            (b, if coloured { "coloured-diff" } else { "diff" })
        };
        ctx.class(kind);
        ctx.class_if(cfg.has("hyperlinks"), "hyperlinks");
        ctx.class_if(cfg.has("side-by-side"), "side-by-side");
        let out = match exec::run_cfg(&cfg, ctx, &input) {
            Ok(o) => o,
            Err(mut f) => {
                f.detail = json!({"case": exec::case_json(&cfg, &input)});
                f.traits = crate::props::c03::failure_traits(&cfg, &input);
                return Verdict::Fail(f);
            }
        };
        let busy = match judge(&cfg, &input, &out, &ident) {
            Ok(b) => b,
            Err(f) => return Verdict::Fail(f),
        };
        let vis = String::from_utf8_lossy(&out);
        let involved = vis.contains('→') || vis.contains('↵') || vis.contains("\x1b]8;") || vis.contains("\x1b[0K") || vis.contains("  \x1b[0m");
        if busy && involved {
            let mut h = fnv(&input);
            h = fnv_add(h, &cfg.fingerprint().to_le_bytes());
            ctx.nontrivial(h);
            if ctx.want_sample() {
                ctx.sample(json!({"kind": kind, "identity": ident, "argv": cfg.base_args().iter().filter(|a| !a.contains("-style=")).collect::<Vec<_>>(), "input": exec::printable(&input[..input.len().min(800)]), "output": exec::printable(&out[..out.len().min(800)])}));
            }
        }
        if ctx.want_xcheck() && !crate::runner::identity_wants_tty(&ctx.identity) && cfg.gitconfig.is_none() && cfg.env.current_dir.is_none() {
            ctx.xchecks.push(json!({"argv": cfg.args(None), "env": exec::env_from_spec(&cfg.env), "cwd": cfg.env.current_dir,
                "identity": ctx.identity, "input_hex": exec::hex(&input), "out_hash": format!("{:016x}", fnv(&out))}));
        }
        Verdict::Pass
    }
    fn supervisor_phase(&self, sup: &mut Sup) {
        crate::xcheck::binary_crosscheck(sup, false);
    }
    fn fuzz_decoders(&self) -> Vec<&'static str> {
        vec!["C09", "C09R"]
    }
}

// ---------------------------------------------------------------------------------------------
// C09R — raw decoder for the coverage-guided tier: option set from the first tape values, the
// rest is delta's input byte for byte.  Inputs containing ESC or other C0 controls are outside
// the decoder's domain (the statement is about input whose own sequences are balanced; text
// without any sequence is trivially so), which leaves hostile *text* for every handler: whatever
// delta then writes must be well-formed on its own account.

pub struct C09R;

impl Prop for C09R {
    fn id(&self) -> &'static str {
        "C09R"
    }
    fn identities(&self) -> Vec<Vec<String>> {
        identities()
    }
    fn cases(&self, _tier: Tier) -> usize {
        0
    }
    fn tape_len(&self, _t: Tier) -> usize {
        crate::props::c03::RAW_HEADER + 1536
    }
    fn rule(&self) -> String {
        "raw decoder of C09 (coverage-guided tier only)".to_string()
    }
    fn assumptions(&self) -> Vec<String> {
        Vec::new()
    }
    fn check(&self, t: &mut Tape, ctx: &mut Ctx) -> Verdict {
        let mut head = t.fork(crate::props::c03::RAW_HEADER);
        let cfg = gen_cfg(&mut head);
        let mut input = t.rest_bytes();
        while input.last() == Some(&0) {
            input.pop();
        }
        if input.iter().any(|b| (*b < 0x20 && *b != b'\n' && *b != b'\t') || *b == 0x7f) {
            return Verdict::Skip("raw input with control bytes");
        }
        // C1 controls (U+0080..U+009F, e.g. CSI as one character) are controls too
        if String::from_utf8_lossy(&input).chars().any(|c| ('\u{80}'..='\u{9f}').contains(&c)) {
            return Verdict::Skip("raw input with control bytes");
        }
        let ident = ctx.identity.clone();
        ctx.class("raw-text");
        let out = match exec::run_cfg(&cfg, ctx, &input) {
            Ok(o) => o,
            Err(mut f) => {
                f.detail = json!({"case": exec::case_json(&cfg, &input)});
                f.traits = crate::props::c03::failure_traits(&cfg, &input);
                return Verdict::Fail(f);
            }
        };
        match judge(&cfg, &input, &out, &ident) {
            Ok(busy) => {
                if busy {
                    let mut h = fnv(&input);
                    h = fnv_add(h, &cfg.fingerprint().to_le_bytes());
                    ctx.nontrivial(h);
                }
                Verdict::Pass
            }
            Err(f) => Verdict::Fail(f),
        }
    }
    fn fuzz_seeds(&self, seed: u64) -> Vec<Vec<u8>> {
        crate::props::c03::raw_seeds(seed, true)
    }
    fn fuzz_decoders(&self) -> Vec<&'static str> {
        Vec::new()
    }
}
