//! C18 — exit status and pager protocol: all output delivered, quits are silent.
//!
//! Fault enumeration on the real binary: an LD_PRELOAD shim (shim/writefail.c) counts the
//! write calls delta makes towards its consumer (stdout, or the pipe to the pager) and, in a
//! second round, makes the n-th call and all later ones fail with EPIPE, for every n.  Real
//! closed pipes (reader closes after k bytes, pager quits after k lines), a recording stub pager,
//! stub `git`/`rg` commands with chosen exit statuses and a pager-selection environment matrix
//! complete the picture.
use std::collections::BTreeSet;
use std::io::{Read, Write};
use std::path::{Path, PathBuf};
use std::process::{Command, Stdio};
use std::time::{Duration, Instant};

use serde_json::{json, Value};

use crate::exec;
use crate::props::c11::{gen_case_sized, tokens_in, Case};
use crate::runner::{verif_root, Ctx, Failure, Prop, Sup, Tier, Verdict};
use crate::tape::{fnv, fnv_add, Tape};
use crate::term;

pub struct C18;

struct World {
    dir: PathBuf,
    pagers: PathBuf,
    tools: PathBuf,
    home: PathBuf,
    delta: PathBuf,
    shim: PathBuf,
}

const PAGER_STUBS: &[&str] = &["less", "mypager", "altpager", "batpg", "envpg", "more", "most"];

fn world(ctx: &Ctx) -> World {
    let dir = ctx.scratch.join(format!("c18-{}-{}", std::process::id(), ctx.shard));
    let w = World { pagers: dir.join("pagers"), tools: dir.join("tools"), home: dir.join("home"), delta: verif_root().join("target/bin/release/delta"), shim: verif_root().join("target/shim/writefail.so"), dir };
    let _ = std::fs::create_dir_all(&w.home);
    for n in PAGER_STUBS {
        exec::stub_path(&w.pagers, n);
    }
    for n in ["git", "rg"] {
        exec::stub_path(&w.tools, n);
    }
    w
}

#[derive(Default, Clone)]
struct Run {
    args: Vec<String>,
    env: Vec<(String, String)>,
    stdin: Option<Vec<u8>>,
    /// put the stub git/rg first on PATH
    tools: bool,
    /// the reader of delta's stdout closes it after this many bytes
    close_after: Option<usize>,
    /// file whose existence is sampled at the moment delta is seen to have exited
    stamp: Option<PathBuf>,
    /// run delta through `bash -c <script> <delta> <args>` (script: `exec "$0" "$@" ...`), e.g.
    /// to hand it a process substitution
    via_bash: Option<String>,
    /// send SIGINT to delta (to delta alone) as soon as this file exists
    sigint_when: Option<PathBuf>,
}

struct Out {
    status: Option<i32>,
    signal: Option<i32>,
    stdout: Vec<u8>,
    stderr: Vec<u8>,
    timed_out: bool,
    /// on a timeout: Some(system call numbers) if the process was positively seen blocked
    blocked_in: Option<String>,
    /// did `stamp` exist when delta exited? (the pager inherits delta's stdout, so waiting for
    /// end-of-file there would also wait for the pager)
    stamp_at_exit: bool,
}

fn run(w: &World, r: &Run) -> std::io::Result<Out> {
    let mut cmd = match &r.via_bash {
        None => {
            let mut c = Command::new(&w.delta);
            c.args(&r.args);
            c
        }
        Some(script) => {
            let mut c = Command::new("/bin/bash");
            c.arg("-c").arg(script).arg(&w.delta).args(&r.args);
            c
        }
    };
    cmd.env_clear();
    let path = if r.tools { format!("{}:{}:/usr/bin:/bin", w.tools.display(), w.pagers.display()) } else { format!("{}:/usr/bin:/bin", w.pagers.display()) };
    cmd.env("PATH", path).env("HOME", &w.home).env("XDG_CONFIG_HOME", w.home.join(".config")).env("GIT_CONFIG_NOSYSTEM", "1").env("TERM", "xterm-256color");
    for (k, v) in &r.env {
        cmd.env(k, v);
    }
    cmd.current_dir(&w.dir);
    cmd.stdin(if r.stdin.is_some() { Stdio::piped() } else { Stdio::null() }).stdout(Stdio::piped()).stderr(Stdio::piped());
    if r.sigint_when.is_some() {
        // (an ignored SIGINT would be inherited: start from the default disposition, as under a terminal)
        use std::os::unix::process::CommandExt;
        unsafe {
            cmd.pre_exec(|| {
                libc::signal(libc::SIGINT, libc::SIG_DFL);
                Ok(())
            });
        }
    }
    let mut child = cmd.spawn()?;
    let writer = r.stdin.clone().map(|input| {
        let mut si = child.stdin.take().unwrap();
        std::thread::spawn(move || {
            let _ = si.write_all(&input);
        })
    });
    let mut so = child.stdout.take().unwrap();
    let mut se = child.stderr.take().unwrap();
    let close_after = r.close_after;
    let t_out = std::thread::spawn(move || {
        let mut b = Vec::new();
        match close_after {
            None => {
                let _ = so.read_to_end(&mut b);
            }
            Some(k) => {
                let mut buf = [0u8; 4096];
                while b.len() < k {
                    let want = (k - b.len()).min(buf.len());
                    match so.read(&mut buf[..want]) {
                        Ok(0) | Err(_) => break,
                        Ok(n) => b.extend_from_slice(&buf[..n]),
                    }
                }
                drop(so); // the consumer goes away
            }
        }
        b
    });
    let t_err = std::thread::spawn(move || {
        let mut b = Vec::new();
        let _ = se.read_to_end(&mut b);
        b
    });
    let t0 = Instant::now();
    let mut timed_out = false;
    let mut blocked_in: Option<String> = None;
    let mut stamp_at_exit = false;
    let mut interrupted = false;
    let status = loop {
        if let Some(p) = &r.sigint_when {
            if !interrupted && p.exists() {
                interrupted = true;
                unsafe { libc::kill(child.id() as i32, libc::SIGINT) };
            }
        }
        if let Some(st) = child.try_wait()? {
            stamp_at_exit = r.stamp.as_ref().map(|p| p.exists()).unwrap_or(false);
            break st;
        }
        if t0.elapsed() > Duration::from_secs(20) {
            timed_out = true;
            // slow, or blocked for good?  Observed, not guessed: no CPU time used over a further
            // 1.5 s while every thread sleeps in a system call (wait4, read, futex, ...)
            blocked_in = blocked_forever(child.id());
            let _ = child.kill();
            break child.wait()?;
        }
        std::thread::sleep(Duration::from_micros(500));
    };
    if let Some(wr) = writer {
        let _ = wr.join();
    }
    let stdout = t_out.join().unwrap_or_default();
    let stderr = t_err.join().unwrap_or_default();
    Ok(Out { status: status.code(), signal: std::os::unix::process::ExitStatusExt::signal(&status), stdout, stderr, timed_out, blocked_in, stamp_at_exit })
}

/// CPU ticks (utime + stime) of a process and the state/system call of each of its threads
fn proc_snapshot(pid: u32) -> Option<(u64, Vec<(char, String)>)> {
    let stat = std::fs::read_to_string(format!("/proc/{}/stat", pid)).ok()?;
    let rest = &stat[stat.rfind(')')? + 2..];
    let f: Vec<&str> = rest.split(' ').collect();
    let ticks = f.get(11)?.parse::<u64>().ok()? + f.get(12)?.parse::<u64>().ok()?;
    let mut threads = Vec::new();
    for e in std::fs::read_dir(format!("/proc/{}/task", pid)).ok()?.flatten() {
        let st = std::fs::read_to_string(e.path().join("stat")).unwrap_or_default();
        let state = st.rfind(')').and_then(|i| st[i + 2..].chars().next()).unwrap_or('?');
        let sc = std::fs::read_to_string(e.path().join("syscall")).unwrap_or_default();
        threads.push((state, sc.split(' ').next().unwrap_or("").trim().to_string()));
    }
    Some((ticks, threads))
}

fn blocked_forever(pid: u32) -> Option<String> {
    let (t1, th1) = proc_snapshot(pid)?;
    std::thread::sleep(Duration::from_millis(1500));
    let (t2, th2) = proc_snapshot(pid)?;
    let sleeping = |th: &Vec<(char, String)>| !th.is_empty() && th.iter().all(|(st, sc)| *st == 'S' && sc != "running" && !sc.is_empty());
    if t1 == t2 && sleeping(&th1) && sleeping(&th2) && th1 == th2 {
        Some(th2.iter().map(|(_, sc)| sc.clone()).collect::<Vec<_>>().join(","))
    } else {
        None
    }
}

fn shim_env(w: &World, target: &str, at: usize, log: &Path) -> Vec<(String, String)> {
    vec![
        ("LD_PRELOAD".to_string(), w.shim.display().to_string()),
        ("WRITEFAIL_TARGET".to_string(), target.to_string()),
        ("WRITEFAIL_AT".to_string(), at.to_string()),
        ("WRITEFAIL_LOG".to_string(), log.display().to_string()),
    ]
}

fn count_writes(log: &Path) -> usize {
    std::fs::read_to_string(log).map(|s| s.lines().count()).unwrap_or(0)
}

/// fault points to explore for `w` write calls
fn points(w: usize, tier: Tier) -> Vec<usize> {
    let all: Vec<usize> = (1..=w).collect();
    let max = match tier {
        Tier::Quick => 30,
        Tier::Thorough => 400,
    };
    if w <= max {
        return all;
    }
    let mut s: BTreeSet<usize> = BTreeSet::new();
    for i in 1..=(max / 3) {
        s.insert(i);
        s.insert(w + 1 - i);
    }
    let rest = max - 2 * (max / 3);
    for i in 0..rest {
        s.insert(1 + (w - 1) * (i + 1) / (rest + 1));
    }
    s.into_iter().collect()
}

fn first_line(b: &[u8]) -> String {
    let s = String::from_utf8_lossy(b);
    let l = s.lines().find(|l| l.contains("panicked")).or_else(|| s.lines().next()).unwrap_or("");
    l.chars().take_while(|c| !c.is_ascii_digit() && *c != '\'' && *c != '"' && *c != '`').take(70).collect::<String>().trim().to_string()
}

/// the consumer went away: delta must stop quietly with status 0
fn quiet(o: &Out) -> Result<(), (String, String)> {
    if o.status != Some(0) {
        return Err((format!("status-{:?}-signal-{:?}:{}", o.status, o.signal, first_line(&o.stderr)), format!("exit status {:?} (signal {:?}); stderr: {}", o.status, o.signal, String::from_utf8_lossy(&o.stderr).chars().take(400).collect::<String>())));
    }
    if !o.stderr.is_empty() {
        return Err((format!("stderr:{}", first_line(&o.stderr)), format!("exit status 0 but stderr is not empty: {}", String::from_utf8_lossy(&o.stderr).chars().take(400).collect::<String>())));
    }
    Ok(())
}

fn render_opts(t: &mut Tape) -> Vec<String> {
    let mut v: Vec<String> = vec!["--no-gitconfig".to_string()];
    let extra: &[&[&str]] = &[&[], &["--side-by-side"], &["--line-numbers"], &["--navigate"], &["--color-only"], &["--hyperlinks"], &["--side-by-side", "--width=70", "--wrap-max-lines=3"], &["--line-buffer-size=1"], &["--diff-so-fancy"], &["--keep-plus-minus-markers", "--line-numbers"]];
    for a in *t.pick(extra) {
        v.push(a.to_string());
    }
    v
}

fn diff_input(t: &mut Tape) -> (Case, Vec<u8>) {
    let c = gen_case_sized(t, 2, 2, 2, 9);
    let b: Vec<u8> = c.lines.iter().flat_map(|l| format!("{}\n", l.text).into_bytes()).collect();
    (c, b)
}

fn sentinels_of(c: &Case) -> BTreeSet<usize> {
    c.lines.iter().filter_map(|l| l.id).collect()
}

fn visible_sentinels(out: &[u8]) -> BTreeSet<usize> {
    let (mut a, mut b) = (BTreeSet::new(), BTreeSet::new());
    tokens_in(&term::visible_text(out), &mut a, &mut b);
    a
}

struct Sc<'a> {
    w: &'a World,
    ctx: &'a mut Ctx,
    name: String,
    detail: Value,
    runs: u64,
    faults: u64,
}

impl<'a> Sc<'a> {
    fn fail(&self, sig: &str, msg: String, extra: Value) -> Verdict {
        let mut d = self.detail.clone();
        d["scenario"] = json!(self.name);
        d["observation"] = extra;
        Verdict::Fail(Failure::new(format!("C18:{}:{}", self.name, sig), format!("[{}] {}", self.name, msg)).with(d).traits(vec![format!("scenario:{}", self.name)]))
    }
    fn run(&mut self, r: &Run) -> Result<Out, Verdict> {
        self.runs += 1;
        match run(self.w, r) {
            Ok(o) if o.timed_out => {
                *self.ctx.notes.entry("c18_timeouts".to_string()).or_insert(0) += 1;
                match &o.blocked_in {
                    // "delta exits": a process that sleeps in a system call without using any
                    // CPU time 20 s after it was started does not
                    Some(sc) => Err(self.fail(&format!("does-not-terminate:blocked-in-syscall-{}", sc.split(',').next().unwrap_or("")), format!("delta is still running after 20 s and blocked for good: no CPU time used over a further 1.5 s, every thread asleep in a system call (numbers: {}); argv {:?}", sc, r.args), json!({"syscalls": sc}))),
                    // merely slow (loaded machine): inconclusive, never a violation
                    None => Err(Verdict::Skip("timeout")),
                }
            }
            Ok(o) => Ok(o),
            Err(e) => Err(Verdict::Fail(Failure::new("INFRASTRUCTURE:spawn", format!("cannot run the binary: {}", e)))),
        }
    }
}

fn args_json(r: &Run) -> Value {
    json!({"argv": r.args, "env": r.env.iter().filter(|(k, _)| !k.starts_with("LD_") && !k.starts_with("STUBTOOL")).collect::<Vec<_>>()})
}

// ---------------------------------------------------------------------------------------------
// scenarios

/// stdin -> stdout: every write call on fd 1 fails in turn; real close after k bytes
fn s_stdout(t: &mut Tape, sc: &mut Sc) -> Verdict {
    let mut args = render_opts(t);
    args.push("--paging=never".to_string());
    let (case, input) = diff_input(t);
    let log = sc.w.dir.join("wf.log");
    let _ = std::fs::remove_file(&log);
    let base_run = Run { args: args.clone(), env: shim_env(sc.w, "1", 0, &log), stdin: Some(input.clone()), ..Default::default() };
    sc.detail = json!({"run": args_json(&base_run), "input": exec::printable(&input[..input.len().min(1500)])});
    let base = match sc.run(&base_run) {
        Ok(o) => o,
        Err(v) => return v,
    };
    if base.status != Some(0) {
        return sc.fail("stdin-exit-status", format!("reading a diff from stdin, delta exited with {:?} (signal {:?}); stderr: {}", base.status, base.signal, String::from_utf8_lossy(&base.stderr)), json!(null));
    }
    if !args.iter().any(|a| a == "--color-only") {
        let want = sentinels_of(&case);
        let got = visible_sentinels(&base.stdout);
        if let Some(m) = want.difference(&got).next() {
            return sc.fail("output-incomplete", format!("exit 0 but the hunk line with sentinel Q{}Z is missing from stdout", m), json!(null));
        }
    }
    let wn = count_writes(&log);
    if wn == 0 {
        return sc.fail("INFRASTRUCTURE-shim", "the shim saw no write call on fd 1".to_string(), json!(null));
    }
    for n in points(wn, sc.ctx.tier) {
        let _ = std::fs::remove_file(&log);
        let r = Run { env: shim_env(sc.w, "1", n, &log), ..base_run.clone() };
        let o = match sc.run(&r) {
            Ok(o) => o,
            Err(v) => return v,
        };
        sc.faults += 1;
        if let Err((sig, msg)) = quiet(&o) {
            return sc.fail(&format!("write-fault:{}", sig), format!("write call {} of {} on stdout fails with EPIPE: {}", n, wn, msg), json!({"fault_at_write": n, "writes": wn}));
        }
        // (a mismatch must show twice, against a fresh fault-free run, before it is reported: one was
        // seen once under heavy load in a thorough run and did not reproduce from its own case)
        let differs = !base.stdout.starts_with(&o.stdout) && {
            *sc.ctx.notes.entry("delivered_bytes_mismatch_rechecked".to_string()).or_insert(0) += 1;
            let fresh = sc.run(&Run { env: shim_env(sc.w, "1", 0, &log), ..base_run.clone() });
            let again = sc.run(&r);
            match (fresh, again) {
                (Ok(f), Ok(a)) => !f.stdout.starts_with(&a.stdout),
                _ => false,
            }
        };
        if differs {
            return sc.fail("write-fault:delivered-bytes-differ", format!("write call {} of {} fails: the bytes delivered before are not a prefix of the fault-free output", n, wn), json!({"fault_at_write": n}));
        }
    }
    // the reader really closes the pipe after k bytes
    for _ in 0..3 {
        let k = t.below(base.stdout.len().max(1));
        let r = Run { args: args.clone(), stdin: Some(input.clone()), close_after: Some(k), ..Default::default() };
        let o = match sc.run(&r) {
            Ok(o) => o,
            Err(v) => return v,
        };
        sc.faults += 1;
        if let Err((sig, msg)) = quiet(&o) {
            return sc.fail(&format!("closed-pipe:{}", sig), format!("the reader of stdout closes the pipe after {} bytes: {}", k, msg), json!({"closed_after_bytes": k}));
        }
    }
    sc.ctx.class(&format!("stdout-writes:{}", if wn <= 30 { "all-enumerated" } else { "sampled" }));
    Verdict::Pass
}

fn pager_script(w: &World, name: &str, extra: Value) -> (PathBuf, PathBuf, PathBuf, PathBuf) {
    let script = w.dir.join("script.json");
    let stdin_file = w.dir.join(format!("stdin-{}.bin", name));
    let stamp = w.dir.join(format!("stamp-{}", name));
    let record = w.dir.join("record.jsonl");
    for p in [&stdin_file, &stamp, &record] {
        let _ = std::fs::remove_file(p);
    }
    let mut sec = json!({"read_stdin": true, "stdin_file": stdin_file, "delay_ms": 15, "exit_stamp": stamp, "record": record,
        "if_arg": {"--version": {"stdout": "less 590 (GNU regex)\n", "record": record}}});
    if let Some(o) = extra.as_object() {
        for (k, v) in o {
            sec[k] = v.clone();
        }
    }
    let mut by = serde_json::Map::new();
    for n in PAGER_STUBS {
        if *n == name {
            by.insert(n.to_string(), sec.clone());
        } else {
            by.insert(n.to_string(), json!({"read_stdin": true, "record": record, "stdin_file": w.dir.join(format!("stdin-{}.bin", n)), "if_arg": {"--version": {"stdout": "less 590 (GNU regex)\n", "record": record}}}));
        }
    }
    std::fs::write(&script, serde_json::to_string(&json!({"by_name": by})).unwrap()).expect("write script");
    (script, stdin_file, stamp, record)
}

/// stdin -> pager: every write call on the pipe fails in turn; pager quits after k lines
fn s_pager(t: &mut Tape, sc: &mut Sc) -> Verdict {
    let mut args = render_opts(t);
    let (_case, input) = diff_input(t);
    // fault-free reference: what --paging=never writes
    let mut ref_args = args.clone();
    ref_args.push("--paging=never".to_string());
    let reference = match sc.run(&Run { args: ref_args, stdin: Some(input.clone()), ..Default::default() }) {
        Ok(o) => o,
        Err(v) => return v,
    };
    args.push(t.ps(&["--paging=always", "--paging=auto"]).to_string());
    let (name, mut env): (&str, Vec<(String, String)>) = match t.below(4) {
        0 => ("less", vec![]),
        1 => {
            args.push("--pager=mypager".to_string());
            ("mypager", vec![])
        }
        2 => ("altpager", vec![("DELTA_PAGER".to_string(), "altpager -x".to_string())]),
        _ => ("envpg", vec![("PAGER".to_string(), "envpg".to_string())]),
    };
    let (script, stdin_file, stamp, _record) = pager_script(sc.w, name, json!({}));
    env.push(("STUBTOOL_SCRIPT".to_string(), script.display().to_string()));
    let log = sc.w.dir.join("wf.log");
    let _ = std::fs::remove_file(&log);
    let mut e0 = env.clone();
    e0.extend(shim_env(sc.w, "pipe", 0, &log));
    let base_run = Run { args: args.clone(), env: e0, stdin: Some(input.clone()), stamp: Some(stamp.clone()), ..Default::default() };
    sc.detail = json!({"run": args_json(&base_run), "pager": name, "input": exec::printable(&input[..input.len().min(1500)])});
    let base = match sc.run(&base_run) {
        Ok(o) => o,
        Err(v) => return v,
    };
    let stamp_there = base.stamp_at_exit;
    if base.status != Some(0) || !base.stderr.is_empty() {
        return sc.fail("pager-exit-status", format!("paging through `{}`: exit {:?}, stderr `{}`", name, base.status, String::from_utf8_lossy(&base.stderr)), json!(null));
    }
    if !stamp_there {
        return sc.fail("exited-before-pager", format!("delta exited while the pager `{}` was still running (the pager exits 15 ms after end of input)", name), json!(null));
    }
    let got = std::fs::read(&stdin_file).unwrap_or_default();
    if got != reference.stdout {
        return sc.fail("pager-input-differs", format!("the pager `{}` received {} bytes, --paging=never writes {} bytes (first difference at byte {})", name, got.len(), reference.stdout.len(), got.iter().zip(reference.stdout.iter()).position(|(a, b)| a != b).unwrap_or(got.len().min(reference.stdout.len()))), json!(null));
    }
    if !base.stdout.is_empty() {
        return sc.fail("stdout-bypasses-pager", format!("{} bytes were written to stdout although a pager is in use", base.stdout.len()), json!(null));
    }
    let wn = count_writes(&log);
    if wn == 0 {
        return sc.fail("INFRASTRUCTURE-shim", "the shim saw no write call on the pager pipe".to_string(), json!(null));
    }
    for n in points(wn, sc.ctx.tier) {
        let _ = std::fs::remove_file(&log);
        let _ = std::fs::remove_file(&stamp);
        let mut e = env.clone();
        e.extend(shim_env(sc.w, "pipe", n, &log));
        let o = match sc.run(&Run { env: e, ..base_run.clone() }) {
            Ok(o) => o,
            Err(v) => return v,
        };
        sc.faults += 1;
        let stamp_there = o.stamp_at_exit;
        if let Err((sig, msg)) = quiet(&o) {
            return sc.fail(&format!("pager-write-fault:{}", sig), format!("write call {} of {} on the pipe to the pager fails with EPIPE: {}", n, wn, msg), json!({"fault_at_write": n, "writes": wn}));
        }
        if !stamp_there {
            return sc.fail("pager-write-fault:exited-before-pager", format!("write call {} of {} fails: delta exited before the pager did", n, wn), json!({"fault_at_write": n}));
        }
        let got = std::fs::read(&stdin_file).unwrap_or_default();
        let differs = !reference.stdout.starts_with(&got) && {
            *sc.ctx.notes.entry("delivered_bytes_mismatch_rechecked".to_string()).or_insert(0) += 1;
            let mut ra = args.clone();
            ra.retain(|a| !a.starts_with("--paging"));
            ra.push("--paging=never".to_string());
            let fresh = sc.run(&Run { args: ra, stdin: Some(input.clone()), ..Default::default() });
            let _ = std::fs::remove_file(&stdin_file);
            let mut e = env.clone();
            e.extend(shim_env(sc.w, "pipe", n, &log));
            let again = sc.run(&Run { env: e, ..base_run.clone() });
            let got2 = std::fs::read(&stdin_file).unwrap_or_default();
            match (fresh, again) {
                (Ok(f), Ok(_)) => !f.stdout.starts_with(&got2),
                _ => false,
            }
        };
        if differs {
            return sc.fail("pager-write-fault:delivered-bytes-differ", format!("write call {} of {} fails: what the pager received is not a prefix of the fault-free output", n, wn), json!({"fault_at_write": n}));
        }
    }
    // Ctrl-C while the pager is up
    {
        let (script, stdin_file, stamp, _r) = pager_script(sc.w, name, json!({"delay_ms": 250}));
        let mut e = env.clone();
        e.retain(|(k, _)| k != "STUBTOOL_SCRIPT");
        e.push(("STUBTOOL_SCRIPT".to_string(), script.display().to_string()));
        let o = match sc.run(&Run { args: args.clone(), env: e, stdin: Some(input.clone()), stamp: Some(stamp.clone()), sigint_when: Some(stdin_file), ..Default::default() }) {
            Ok(o) => o,
            Err(v) => return v,
        };
        sc.faults += 1;
        if o.status != Some(0) || !o.stamp_at_exit {
            return sc.fail("pager-interrupt:exited-before-pager", format!("SIGINT arrives while the pager `{}` is showing the text (it exits 250 ms later): delta ended with status {:?} signal {:?}, {} the pager", name, o.status, o.signal, if o.stamp_at_exit { "after" } else { "before" }), json!({"sigint": "when the pager has read everything"}));
        }
    }
    // the pager really quits after k lines
    let total_lines = reference.stdout.iter().filter(|b| **b == b'\n').count();
    for _ in 0..3 {
        let k = t.below(total_lines.max(1));
        let (script, _sf, stamp, _r) = pager_script(sc.w, name, json!({"read_lines": k, "delay_ms": 5}));
        let mut e = env.clone();
        e.retain(|(k, _)| k != "STUBTOOL_SCRIPT");
        e.push(("STUBTOOL_SCRIPT".to_string(), script.display().to_string()));
        let o = match sc.run(&Run { args: args.clone(), env: e, stdin: Some(input.clone()), stamp: Some(stamp.clone()), ..Default::default() }) {
            Ok(o) => o,
            Err(v) => return v,
        };
        sc.faults += 1;
        let stamp_there = o.stamp_at_exit;
        if let Err((sig, msg)) = quiet(&o) {
            return sc.fail(&format!("pager-quit:{}", sig), format!("the pager `{}` quits after reading {} lines: {}", name, k, msg), json!({"pager_quits_after_lines": k}));
        }
        if !stamp_there {
            return sc.fail("pager-quit:exited-before-pager", format!("the pager quits after {} lines: delta exited before it", k), json!({"pager_quits_after_lines": k}));
        }
    }
    sc.ctx.class(&format!("pager:{}", name));
    Verdict::Pass
}

fn rg_json(case: &Case) -> Vec<u8> {
    let mut out = String::new();
    let path = "src/a.rs";
    out.push_str(&format!("{}\n", json!({"type":"begin","data":{"path":{"text":path}}})));
    let mut n = 0;
    for l in case.lines.iter().filter(|l| l.id.is_some()).take(12) {
        n += 1;
        let text = format!("Q{}Z foo\n", l.id.unwrap());
        let start = text.len() - 4;
        out.push_str(&format!("{}\n", json!({"type":"match","data":{"path":{"text":path},"lines":{"text":text},"line_number":n,"absolute_offset":n*10,"submatches":[{"match":{"text":"foo"},"start":start,"end":start+3}]}})));
    }
    out.push_str(&format!("{}\n", json!({"type":"end","data":{"path":{"text":path},"binary_offset":null,"stats":{"elapsed":{"secs":0,"nanos":1,"human":"0s"},"searches":1,"searches_with_match":1,"bytes_searched":1,"bytes_printed":1,"matched_lines":n,"matches":n}}})));
    out.into_bytes()
}

/// `delta git ...` / `delta rg ...`: exit status passed through, whole output rendered
fn s_wrapped(t: &mut Tape, sc: &mut Sc) -> Verdict {
    let mut args = render_opts(t);
    args.retain(|a| a != "--color-only");
    args.push("--paging=never".to_string());
    let (case, input) = diff_input(t);
    let is_rg = t.chance(1, 3);
    let status = *t.pick(&[0i64, 0, 1, 2, 3, 42, 127, 128, 129, 255]);
    let with_stderr = t.chance(1, 3);
    let mut content = if is_rg { rg_json(&case) } else { input.clone() };
    // now and then the command has far more to say than a pipe holds (64 KiB): when delta's
    // consumer goes away early, the command is still blocked writing, and delta must not wait
    // for it with the read end of that pipe open
    let big = t.chance(1, 4);
    if big && !content.is_empty() {
        let unit = content.clone();
        while content.len() < 400_000 {
            content.extend_from_slice(&unit);
        }
    }
    let content_file = sc.w.dir.join("tool-stdout.bin");
    std::fs::write(&content_file, &content).expect("write content");
    let script = sc.w.dir.join("script.json");
    let mut sec = json!({"stdout_file": content_file, "status": status});
    if with_stderr {
        sec["stderr"] = json!("fatal: something went wrong\nsecond line\n");
    }
    std::fs::write(&script, serde_json::to_string(&json!({"by_name": {"git": sec.clone(), "rg": sec}})).unwrap()).expect("write script");
    let tool: Vec<&str> = if is_rg { vec!["rg", "foo"] } else { t.pick(&[vec!["git", "show"], vec!["git", "diff"], vec!["git", "log", "-p"], vec!["git", "-c", "core.x=y", "show", "HEAD"]]).clone() };
    args.extend(tool.iter().map(|s| s.to_string()));
    let env = vec![("STUBTOOL_SCRIPT".to_string(), script.display().to_string())];
    let base_run = Run { args: args.clone(), env: env.clone(), tools: true, ..Default::default() };
    sc.detail = json!({"run": args_json(&base_run), "wrapped_command_status": status, "wrapped_command_stderr": with_stderr, "wrapped_command_stdout": exec::printable(&content[..content.len().min(1500)])});
    let o = match sc.run(&base_run) {
        Ok(o) => o,
        Err(v) => return v,
    };
    if o.status != Some(status as i32) {
        return sc.fail("status-not-passed-through", format!("`{}` exited with {}, delta exited with {:?} (signal {:?}); stderr: {}", tool.join(" "), status, o.status, o.signal, String::from_utf8_lossy(&o.stderr).chars().take(300).collect::<String>()), json!(null));
    }
    let want: BTreeSet<usize> = if is_rg { sentinels_of(&case).into_iter().take(12).collect() } else { sentinels_of(&case) };
    let got = visible_sentinels(&o.stdout);
    if let Some(m) = want.difference(&got).next() {
        return sc.fail("output-incomplete", format!("`{}` wrote a line with sentinel Q{}Z that is missing from delta's output (delta exit {:?})", tool.join(" "), m, o.status), json!(null));
    }
    let err = String::from_utf8_lossy(&o.stderr).to_string();
    // (for git exiting with 129 - unknown option - only the first line is shown, by design)
    if with_stderr && !(err.contains("something went wrong") && (err.contains("second line") || (status == 129 && !is_rg))) {
        return sc.fail("stderr-lost", format!("the command's error output is not passed on; delta's stderr: `{}`", err), json!(null));
    }
    if !with_stderr && !err.is_empty() {
        return sc.fail("stderr-noise", format!("the command wrote nothing to stderr and exited {}; delta's stderr: `{}`", status, err), json!(null));
    }
    if !with_stderr {
        // consumer disappears
        let log = sc.w.dir.join("wf.log");
        let _ = std::fs::remove_file(&log);
        let mut e0 = env.clone();
        e0.extend(shim_env(sc.w, "1", 0, &log));
        if let Err(v) = sc.run(&Run { env: e0, ..base_run.clone() }) {
            return v;
        }
        let wn = count_writes(&log);
        for n in points(wn, sc.ctx.tier) {
            let mut e = env.clone();
            e.extend(shim_env(sc.w, "1", n, &log));
            let o = match sc.run(&Run { env: e, ..base_run.clone() }) {
                Ok(o) => o,
                Err(v) => return v,
            };
            sc.faults += 1;
            if let Err((sig, msg)) = quiet(&o) {
                return sc.fail(&format!("write-fault:{}", sig), format!("`delta {}`: write call {} of {} on stdout fails with EPIPE: {}", tool.join(" "), n, wn, msg), json!({"fault_at_write": n, "writes": wn}));
            }
        }
    }
    sc.ctx.class(&format!("wrapped:{}:status{}", tool[0], if status == 0 { "0" } else { "nonzero" }));
    sc.ctx.class_if(big, "wrapped:command-output-larger-than-a-pipe");
    Verdict::Pass
}

/// `delta A B`
fn s_files(t: &mut Tape, sc: &mut Sc) -> Verdict {
    let mut args = render_opts(t);
    args.retain(|a| a != "--color-only");
    args.push("--paging=never".to_string());
    let n = t.range(1, 25);
    let mut a_lines: Vec<String> = (0..n).map(|i| format!("line {} Q{}Z {}", i, i, crate::gen::text::ident(t))).collect();
    let mut b_lines = a_lines.clone();
    let variant = t.weighted(&[3, 6, 2, 3]);
    let mut changed: BTreeSet<usize> = BTreeSet::new();
    if variant == 1 || variant == 3 {
        let k = t.range(1, 4);
        for _ in 0..k {
            let i = t.below(b_lines.len());
            let id = 1000 + i;
            b_lines[i] = format!("changed Q{}Z {}", id, crate::gen::text::ident(t));
            changed.insert(id);
        }
        if t.coin() {
            a_lines.push(format!("only in a Q{}Z", 2000));
            changed.insert(2000);
        }
    }
    let fa = sc.w.dir.join("a.txt");
    let fb = sc.w.dir.join("b.txt");
    std::fs::write(&fa, a_lines.join("\n") + "\n").expect("write a");
    let _ = std::fs::remove_file(&fb);
    if variant != 2 {
        std::fs::write(&fb, b_lines.join("\n") + "\n").expect("write b");
    }
    // one side given as a process substitution (`delta a.txt <(cat b.txt)`): a pipe under /dev/fd,
    // which older git cannot diff - delta must still compare the contents
    if (variant == 0 || variant == 1) && t.chance(1, 4) {
        let left = t.coin();
        let script = if left { "exec \"$0\" \"$@\" <(cat a.txt) b.txt" } else { "exec \"$0\" \"$@\" a.txt <(cat b.txt)" };
        let r = Run { args: args.clone(), via_bash: Some(script.to_string()), ..Default::default() };
        sc.detail = json!({"run": args_json(&r), "shell": script, "variant": (["identical", "different"][variant]), "a.txt": a_lines, "b.txt": b_lines});
        let o = match sc.run(&r) {
            Ok(o) => o,
            Err(v) => return v,
        };
        if variant == 0 && (o.status != Some(0) || !o.stdout.is_empty()) {
            return sc.fail("process-substitution:identical-files", format!("`{}` with identical contents: exit {:?}, {} bytes of output; stderr: {}", script, o.status, o.stdout.len(), String::from_utf8_lossy(&o.stderr).chars().take(300).collect::<String>()), json!(null));
        }
        if variant == 1 {
            if o.status != Some(1) {
                return sc.fail("process-substitution:different-files-status", format!("`{}` with different contents: exit {:?} (expected 1); stderr: {}", script, o.status, String::from_utf8_lossy(&o.stderr).chars().take(300).collect::<String>()), json!(null));
            }
            let got = visible_sentinels(&o.stdout);
            if let Some(m) = changed.difference(&got).next() {
                return sc.fail("process-substitution:output-incomplete", format!("`{}`: the changed line with sentinel Q{}Z is missing from the output", script, m), json!(null));
            }
        }
        sc.ctx.class("files:process-substitution");
        return Verdict::Pass;
    }
    // `delta A B` with a pager: whatever happens - also when the differ cannot even be started
    // because --diff-args does not parse - delta has to outlive the pager it spawned
    if variant == 1 && t.chance(1, 3) {
        args.retain(|a| a != "--paging=never");
        args.push("--paging=always".to_string());
        args.push("--pager=mypager".to_string());
        let bad_args = t.coin();
        if bad_args {
            args.push(format!("--diff-args={}", t.ps(&["-U1 'x", "\"-U3", "-U2 \\"])));
        } else if t.coin() {
            args.push("--diff-args=-U1".to_string());
        }
        args.push("a.txt".to_string());
        args.push("b.txt".to_string());
        let (script, _stdin_file, stamp, record) = pager_script(sc.w, "mypager", json!({"delay_ms": 120}));
        let r = Run { args: args.clone(), env: vec![("STUBTOOL_SCRIPT".to_string(), script.display().to_string())], stamp: Some(stamp.clone()), ..Default::default() };
        sc.detail = json!({"run": args_json(&r), "unparsable_diff_args": bad_args, "a.txt": a_lines, "b.txt": b_lines});
        let o = match sc.run(&r) {
            Ok(o) => o,
            Err(v) => return v,
        };
        let pager_started = record.exists();
        if pager_started && !o.stamp_at_exit {
            return sc.fail("two-files-pager:exited-before-pager", format!("`delta {}`: delta exited (status {:?}) while the pager it had started was still running (the pager exits 120 ms after end of input); stderr: {}", args.join(" "), o.status, String::from_utf8_lossy(&o.stderr).chars().take(200).collect::<String>()), json!(null));
        }
        if !bad_args {
            if o.status != Some(1) {
                return sc.fail("different-files-status", format!("two different files through a pager: exit {:?} (expected 1); stderr: {}", o.status, String::from_utf8_lossy(&o.stderr)), json!(null));
            }
            if !pager_started {
                return sc.fail("pager-not-started", "--paging=always --pager=mypager: the pager was not started".to_string(), json!(null));
            }
        }
        sc.ctx.class(if bad_args { "files:pager:unparsable-diff-args" } else { "files:pager" });
        return Verdict::Pass;
    }
    args.push("a.txt".to_string());
    args.push("b.txt".to_string());
    if variant == 3 {
        // a stub differ with a chosen exit status
        let status = *t.pick(&[0i64, 1, 2, 3, 128]);
        let content = format!("diff --git a/a.txt b/b.txt\nindex 1..2 100644\n--- a/a.txt\n+++ b/b.txt\n@@ -1,2 +1,2 @@\n-old Q1Z\n+new Q2Z\n ctx Q3Z\n");
        let content_file = sc.w.dir.join("tool-stdout.bin");
        std::fs::write(&content_file, &content).expect("write content");
        let script = sc.w.dir.join("script.json");
        std::fs::write(&script, serde_json::to_string(&json!({"by_name": {"git": {"stdout_file": content_file, "status": status, "if_arg": {"--version": {"stdout": "git version 2.45.1\n"}}}}})).unwrap()).expect("write script");
        let r = Run { args: args.clone(), env: vec![("STUBTOOL_SCRIPT".to_string(), script.display().to_string())], tools: true, ..Default::default() };
        sc.detail = json!({"run": args_json(&r), "differ_status": status});
        let o = match sc.run(&r) {
            Ok(o) => o,
            Err(v) => return v,
        };
        if o.status != Some(status as i32) {
            return sc.fail("differ-status-not-passed-through", format!("the differ exited with {}, delta exited with {:?}; stderr: {}", status, o.status, String::from_utf8_lossy(&o.stderr).chars().take(300).collect::<String>()), json!(null));
        }
        let got = visible_sentinels(&o.stdout);
        if !(got.contains(&1) && got.contains(&2) && got.contains(&3)) {
            return sc.fail("output-incomplete", format!("the differ's output is not rendered completely (exit {:?})", o.status), json!(null));
        }
        sc.ctx.class("files:stub-differ");
        return Verdict::Pass;
    }
    let base_run = Run { args: args.clone(), ..Default::default() };
    sc.detail = json!({"run": args_json(&base_run), "variant": (["identical", "different", "second file missing"][variant.min(2)]), "a.txt": a_lines, "b.txt": b_lines});
    let o = match sc.run(&base_run) {
        Ok(o) => o,
        Err(v) => return v,
    };
    // the differ's own status for these two paths
    let differ = Command::new("/usr/bin/git").args(["diff", "--no-index", "--", "a.txt", "b.txt"]).current_dir(&sc.w.dir).env_clear().env("PATH", "/usr/bin:/bin").env("HOME", &sc.w.home).env("GIT_CONFIG_NOSYSTEM", "1").stdout(Stdio::null()).stderr(Stdio::null()).status().ok().and_then(|s| s.code());
    if differ.is_none() || o.status != differ {
        return sc.fail("differ-status-not-passed-through", format!("`git diff --no-index` exits with {:?} for these files, delta with {:?}; stderr: {}", differ, o.status, String::from_utf8_lossy(&o.stderr).chars().take(300).collect::<String>()), json!(null));
    }
    match variant {
        0 => {
            if o.status != Some(0) || !o.stdout.is_empty() {
                return sc.fail("identical-files", format!("two identical files: exit {:?}, {} bytes of output; stderr: {}", o.status, o.stdout.len(), String::from_utf8_lossy(&o.stderr)), json!(null));
            }
        }
        1 => {
            if o.status != Some(1) {
                return sc.fail("different-files-status", format!("two different files: exit {:?} (expected 1); stderr: {}", o.status, String::from_utf8_lossy(&o.stderr)), json!(null));
            }
            let got = visible_sentinels(&o.stdout);
            if let Some(m) = changed.difference(&got).next() {
                return sc.fail("output-incomplete", format!("two different files: the changed line with sentinel Q{}Z is missing from the output", m), json!(null));
            }
            // consumer disappears
            let log = sc.w.dir.join("wf.log");
            let _ = std::fs::remove_file(&log);
            if let Err(v) = sc.run(&Run { env: shim_env(sc.w, "1", 0, &log), ..base_run.clone() }) {
                return v;
            }
            let wn = count_writes(&log);
            for n in points(wn, sc.ctx.tier) {
                let o = match sc.run(&Run { env: shim_env(sc.w, "1", n, &log), ..base_run.clone() }) {
                    Ok(o) => o,
                    Err(v) => return v,
                };
                sc.faults += 1;
                if let Err((sig, msg)) = quiet(&o) {
                    return sc.fail(&format!("write-fault:{}", sig), format!("`delta a.txt b.txt`: write call {} of {} on stdout fails with EPIPE: {}", n, wn, msg), json!({"fault_at_write": n, "writes": wn}));
                }
            }
        }
        _ => {
            // trouble: whatever the differ says (this git answers 1 for an inaccessible path), never 0
            if o.status == Some(0) {
                return sc.fail("missing-file-status", "second file missing: exit 0".to_string(), json!(null));
            }
        }
    }
    sc.ctx.class(&format!("files:{}", ["identical", "different", "missing"][variant.min(2)]));
    Verdict::Pass
}

/// informational commands: consumer disappears at every write
fn s_info(t: &mut Tape, sc: &mut Sc) -> Verdict {
    // (args, uses pager, needs stdin)
    let cmds: &[(&[&str], bool, bool)] = &[
        (&["--version"], false, false),
        (&["--help"], true, false),
        (&["-h"], true, false),
        (&["--no-gitconfig", "--show-config"], false, false),
        (&["--no-gitconfig", "--show-colors"], true, false),
        (&["--no-gitconfig", "--list-languages"], false, false),
        (&["--no-gitconfig", "--list-syntax-themes"], false, false),
        (&["--no-gitconfig", "--show-syntax-themes"], true, true),
        (&["--no-gitconfig", "--parse-ansi"], false, true),
        (&["--no-gitconfig", "--generate-completion", "bash"], false, false),
    ];
    let (cargs, pager, needs_stdin) = *t.pick(cmds);
    let args: Vec<String> = cargs.iter().map(|s| s.to_string()).collect();
    let stdin = if needs_stdin { Some(b"\x1b[31mred\x1b[0m plain \x1b[1;4;38;5;100mfancy\x1b[0m\nsecond line\n".to_vec()) } else { None };
    let (script, _sf, _st, _r) = pager_script(sc.w, "less", json!({"delay_ms": 0}));
    let mut env = vec![("STUBTOOL_SCRIPT".to_string(), script.display().to_string())];
    if t.coin() {
        env.push(("COLORTERM".to_string(), "truecolor".to_string()));
    }
    let target = if pager { "pipe" } else { "1" };
    let log = sc.w.dir.join("wf.log");
    let _ = std::fs::remove_file(&log);
    let mut e0 = env.clone();
    e0.extend(shim_env(sc.w, target, 0, &log));
    let base_run = Run { args: args.clone(), env: e0, stdin: stdin.clone(), ..Default::default() };
    sc.detail = json!({"run": args_json(&base_run)});
    let base = match sc.run(&base_run) {
        Ok(o) => o,
        Err(v) => return v,
    };
    if base.status != Some(0) {
        return sc.fail("info-exit-status", format!("`delta {}` exited with {:?}; stderr: {}", args.join(" "), base.status, String::from_utf8_lossy(&base.stderr)), json!(null));
    }
    let wn = count_writes(&log);
    if wn == 0 {
        return sc.fail("INFRASTRUCTURE-shim", format!("the shim saw no write call ({})", target), json!(null));
    }
    for n in points(wn, sc.ctx.tier) {
        let mut e = env.clone();
        e.extend(shim_env(sc.w, target, n, &log));
        let o = match sc.run(&Run { env: e, ..base_run.clone() }) {
            Ok(o) => o,
            Err(v) => return v,
        };
        sc.faults += 1;
        if let Err((sig, msg)) = quiet(&o) {
            return sc.fail(&format!("info-write-fault:{}:{}", cargs.last().unwrap().trim_start_matches('-'), sig), format!("`delta {}`: write call {} of {} ({}) fails with EPIPE: {}", args.join(" "), n, wn, if pager { "pipe to the pager" } else { "stdout" }, msg), json!({"fault_at_write": n, "writes": wn}));
        }
    }
    if pager {
        // Ctrl-C while the pager is up (the terminal sends SIGINT to delta as well): delta must still
        // be there when the pager exits - "does not exit before the pager does"
        let (script, stdin_file, stamp, _r) = pager_script(sc.w, "less", json!({"delay_ms": 250}));
        let mut e = env.clone();
        e.retain(|(k, _)| k != "STUBTOOL_SCRIPT");
        e.push(("STUBTOOL_SCRIPT".to_string(), script.display().to_string()));
        let o = match sc.run(&Run { args: args.clone(), env: e, stdin: stdin.clone(), stamp: Some(stamp), sigint_when: Some(stdin_file), ..Default::default() }) {
            Ok(o) => o,
            Err(v) => return v,
        };
        sc.faults += 1;
        if o.status != Some(0) || !o.stamp_at_exit {
            return sc.fail(&format!("info-interrupt:{}:exited-before-pager", cargs.last().unwrap().trim_start_matches('-')), format!("`delta {}`: SIGINT arrives while the pager is showing the text (it exits 250 ms later): delta ended with status {:?} signal {:?}, {} the pager", args.join(" "), o.status, o.signal, if o.stamp_at_exit { "after" } else { "before" }), json!({"sigint": "when the pager has read everything"}));
        }
    }
    if !pager {
        let k = t.below(base.stdout.len().max(1));
        let o = match sc.run(&Run { args: args.clone(), env: env.clone(), stdin, close_after: Some(k), ..Default::default() }) {
            Ok(o) => o,
            Err(v) => return v,
        };
        sc.faults += 1;
        if let Err((sig, msg)) = quiet(&o) {
            return sc.fail(&format!("info-closed-pipe:{}:{}", cargs.last().unwrap().trim_start_matches('-'), sig), format!("`delta {}`: the reader of stdout closes the pipe after {} bytes: {}", args.join(" "), k, msg), json!({"closed_after_bytes": k}));
        }
    }
    sc.ctx.class(&format!("info:{}", cargs.last().unwrap()));
    Verdict::Pass
}

/// pager selection: --pager / delta.pager, then DELTA_PAGER, then BAT_PAGER / PAGER, then less
fn s_select(t: &mut Tape, sc: &mut Sc) -> Verdict {
    let (_case, input) = diff_input(t);
    let mut args: Vec<String> = Vec::new();
    let mut env: Vec<(String, String)> = Vec::new();
    // (source, command string)
    let cfg_pager: Option<(&str, &str)> = match t.weighted(&[6, 2, 2, 1]) {
        0 => None,
        1 => Some(("--pager", *t.pick(&["mypager", "mypager --flag x", "less", "less -X"]))),
        2 => Some(("delta.pager", *t.pick(&["mypager", "mypager -z", "less"]))),
        _ => Some(("GIT_CONFIG_PARAMETERS", "mypager")),
    };
    let delta_pager: Option<&str> = if t.chance(1, 3) { Some(*t.pick(&["altpager", "altpager -a b", "less", "less -X -F"])) } else { None };
    let bat_pager: Option<&str> = if t.chance(1, 4) { Some(*t.pick(&["batpg", "batpg -q", "less"])) } else { None };
    let pager: Option<&str> = if t.coin() { Some(*t.pick(&["envpg", "envpg --opt", "less", "less -F", "more", "most", "/usr/bin/more"])) } else { None };
    match cfg_pager {
        Some(("--pager", v)) => {
            args.push("--no-gitconfig".to_string());
            args.push(format!("--pager={}", v));
        }
        Some(("delta.pager", v)) => {
            std::fs::write(sc.w.home.join(".gitconfig"), format!("[delta]\n    pager = {}\n", v)).expect("write gitconfig");
        }
        Some((_, v)) => {
            // (--no-gitconfig would switch this source off as well)
            env.push(("GIT_CONFIG_PARAMETERS".to_string(), format!("'delta.pager={}'", v)));
        }
        None => args.push("--no-gitconfig".to_string()),
    }
    if let Some(v) = delta_pager {
        env.push(("DELTA_PAGER".to_string(), v.to_string()));
    }
    if let Some(v) = bat_pager {
        env.push(("BAT_PAGER".to_string(), v.to_string()));
    }
    if let Some(v) = pager {
        env.push(("PAGER".to_string(), v.to_string()));
    }
    // reference model of the documented order
    let (selected_cmd, args_are_users): (String, bool) = if let Some((_, v)) = cfg_pager {
        (v.to_string(), v.contains(' '))
    } else if let Some(v) = delta_pager {
        (v.to_string(), v.contains(' '))
    } else if let Some(v) = bat_pager {
        (v.to_string(), false)
    } else if let Some(v) = pager {
        let bin = v.split(' ').next().unwrap();
        let stem = Path::new(bin).file_stem().unwrap().to_string_lossy().to_string();
        (if stem == "more" || stem == "most" { "less".to_string() } else { v.to_string() }, false)
    } else {
        ("less".to_string(), false)
    };
    let selected_bin = selected_cmd.split(' ').next().unwrap().to_string();
    let selected_name = Path::new(&selected_bin).file_name().unwrap().to_string_lossy().to_string();
    let mut ref_args = args.clone();
    ref_args.push("--paging=never".to_string());
    let reference = match sc.run(&Run { args: ref_args, env: env.clone(), stdin: Some(input.clone()), ..Default::default() }) {
        Ok(o) => o,
        Err(v) => {
            let _ = std::fs::remove_file(sc.w.home.join(".gitconfig"));
            return v;
        }
    };
    args.push("--paging=always".to_string());
    let (script, _stdin_file, stamp, record) = pager_script(sc.w, &selected_name, json!({}));
    for n in PAGER_STUBS {
        let _ = std::fs::remove_file(sc.w.dir.join(format!("stdin-{}.bin", n)));
    }
    env.push(("STUBTOOL_SCRIPT".to_string(), script.display().to_string()));
    let r = Run { args: args.clone(), env: env.clone(), stdin: Some(input.clone()), stamp: Some(stamp.clone()), ..Default::default() };
    sc.detail = json!({"run": args_json(&r), "gitconfig_pager": cfg_pager.filter(|c| c.0 == "delta.pager").map(|c| c.1), "expected_pager": selected_cmd});
    let o = sc.run(&r);
    let _ = std::fs::remove_file(sc.w.home.join(".gitconfig"));
    let o = match o {
        Ok(o) => o,
        Err(v) => return v,
    };
    let stamp_there = o.stamp_at_exit;
    if o.status != Some(0) || !o.stderr.is_empty() {
        return sc.fail("pager-exit-status", format!("exit {:?}, stderr `{}`", o.status, String::from_utf8_lossy(&o.stderr)), json!(null));
    }
    // who was started?
    let recs: Vec<Value> = std::fs::read_to_string(&record).unwrap_or_default().lines().filter_map(|l| serde_json::from_str(l).ok()).collect();
    let started: Vec<(String, Vec<String>)> = recs
        .iter()
        .map(|r| {
            let argv: Vec<String> = r["argv"].as_array().map(|a| a.iter().map(|s| s.as_str().unwrap_or("").to_string()).collect()).unwrap_or_default();
            (Path::new(&argv[0]).file_name().unwrap().to_string_lossy().to_string(), argv)
        })
        .filter(|(_, argv)| !argv.iter().any(|a| a == "--version"))
        .collect();
    let names: Vec<&str> = started.iter().map(|s| s.0.as_str()).collect();
    if names != vec![selected_name.as_str()] {
        return sc.fail("wrong-pager", format!("expected the pager `{}` to be started (once); started: {:?}", selected_cmd, started.iter().map(|s| s.1.join(" ")).collect::<Vec<_>>()), json!({"started": names}));
    }
    let got = std::fs::read(sc.w.dir.join(format!("stdin-{}.bin", selected_name))).unwrap_or_default();
    if got != reference.stdout {
        return sc.fail("pager-input-differs", format!("the pager `{}` received {} bytes, --paging=never writes {} bytes", selected_name, got.len(), reference.stdout.len()), json!(null));
    }
    if !stamp_there {
        return sc.fail("exited-before-pager", format!("delta exited while the pager `{}` was still running", selected_name), json!(null));
    }
    let argv = &started[0].1;
    if args_are_users {
        let want: Vec<&str> = selected_cmd.split(' ').skip(1).collect();
        let have: Vec<&str> = argv[1..].iter().map(|s| s.as_str()).collect();
        if want != have {
            return sc.fail("pager-args-changed", format!("the pager command `{}` was started as {:?}", selected_cmd, argv), json!(null));
        }
    } else if selected_name == "less" {
        let raw = argv[1..].iter().any(|a| a == "--RAW-CONTROL-CHARS" || (a.starts_with('-') && !a.starts_with("--") && a.contains('R')));
        if !raw {
            return sc.fail("less-without-raw-control-chars", format!("less's arguments were delta's to choose, yet it was started as {:?} (colours would not pass)", argv), json!(null));
        }
    }
    sc.ctx.class(&format!("select:{}", if cfg_pager.is_some() { "config" } else if delta_pager.is_some() { "DELTA_PAGER" } else if bat_pager.is_some() { "BAT_PAGER" } else if pager.is_some() { "PAGER" } else { "default" }));
    Verdict::Pass
}

impl Prop for C18 {
    fn id(&self) -> &'static str {
        "C18"
    }
    fn watchdog_secs(&self, tier: Tier) -> u64 {
        if tier == Tier::Quick {
            240
        } else {
            1200
        }
    }
    fn level(&self) -> &'static str {
        "fault_enumeration"
    }
    fn cases(&self, tier: Tier) -> usize {
        match tier {
            Tier::Quick => 800,
            Tier::Thorough => 2_400,
        }
    }
    fn tape_len(&self, _t: Tier) -> usize {
        6000
    }
    fn rule(&self) -> String {
        "cases = scenario of the real binary x generated input x option set: (a) diff on stdin -> stdout, (b) -> pager (stub less / --pager / DELTA_PAGER / PAGER), (c) `delta git|rg ...` with a stub command of chosen output, stderr and exit status in {0,1,2,3,42,127,128,129,255}, (d) `delta A B` on identical / different / missing files (real git) or a stub differ with chosen status, (e) informational commands (--version, --help, -h, --show-config, --show-colors, --list-languages, --list-syntax-themes, --show-syntax-themes, --parse-ansi, --generate-completion), (f) pager-selection environment matrix (--pager | delta.pager | GIT_CONFIG_PARAMETERS) x DELTA_PAGER x BAT_PAGER x PAGER (incl. more/most/less -F). Faults: an LD_PRELOAD shim counts delta's write calls towards its consumer and then fails the n-th and all later ones with EPIPE, for EVERY n up to 30 calls (beyond: first 10, last 10, 10 spread; thorough tier 400); plus readers that really close the pipe after k bytes and pagers that quit after k lines. Oracle: exit status as the statement says (0 / differ's / command's), every sentinel-carrying line present in the output, the selected pager (reference model of the documented order) is the only one started, receives exactly the bytes --paging=never writes, has exited before delta does (exit stamp), less gets --RAW-CONTROL-CHARS when its arguments are delta's; under every fault: exit 0, empty stderr, delivered bytes a prefix of the fault-free output. Non-trivial = a scenario with >= 1 injected fault; distinct by hash of (scenario, argv, env, input).".to_string()
    }
    fn assumptions(&self) -> Vec<String> {
        vec![
            "the shim intercepts write(2)/writev(2) of the process named delta only; other ways of writing (sendfile, splice) are not used on the output path".to_string(),
            "a consumer that has gone away stays away: the failing call and all later ones fail with EPIPE".to_string(),
            "pagers and wrapped commands are stubs recording argv, environment and stdin; the real less/git are used only for `delta A B`".to_string(),
            "a run that exceeds 20 s is counted as inconclusive (note c18_timeouts), not as a violation".to_string(),
        ]
    }
    fn needs_binary(&self) -> bool {
        true
    }
    fn fuzz_decoders(&self) -> Vec<&'static str> {
        // decided on separate processes (faults / schedules): in-process coverage feedback has
        // nothing to steer, see DESIGN §10
        Vec::new()
    }
    fn check(&self, t: &mut Tape, ctx: &mut Ctx) -> Verdict {
        let w = world(ctx);
        let kind = t.weighted(&[5, 5, 4, 3, 3, 5]);
        let name = ["stdin-to-stdout", "stdin-to-pager", "wrapped-command", "two-files", "info-command", "pager-selection"][kind].to_string();
        let mut sc = Sc { w: &w, ctx, name, detail: json!({}), runs: 0, faults: 0 };
        let v = match kind {
            0 => s_stdout(t, &mut sc),
            1 => s_pager(t, &mut sc),
            2 => s_wrapped(t, &mut sc),
            3 => s_files(t, &mut sc),
            4 => s_info(t, &mut sc),
            _ => s_select(t, &mut sc),
        };
        let (runs, faults, name, detail) = (sc.runs, sc.faults, sc.name.clone(), sc.detail.clone());
        let _ = std::fs::remove_dir_all(&w.dir);
        *ctx.notes.entry("binary_runs".to_string()).or_insert(0) += runs;
        *ctx.notes.entry("faults_injected".to_string()).or_insert(0) += faults;
        ctx.class(&format!("scenario:{}", name));
        if let Verdict::Pass = v {
            if faults > 0 {
                let mut h = fnv(name.as_bytes());
                h = fnv_add(h, detail.to_string().as_bytes());
                ctx.nontrivial(h);
                if ctx.want_sample() {
                    let mut d = detail;
                    if let Some(o) = d.as_object_mut() {
                        o.remove("input");
                        o.remove("wrapped_command_stdout");
                    }
                    ctx.sample(json!({"scenario": name, "runs_of_the_binary": runs, "faults_injected": faults, "case": d}));
                }
            }
        }
        v
    }
    fn supervisor_phase(&self, _sup: &mut Sup) {}
}
