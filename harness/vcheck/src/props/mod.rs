pub mod c01;
pub mod c02;
pub mod c03;
pub mod c04;
pub mod c05;
pub mod c06;
pub mod c07;
pub mod c08;
pub mod c09;
pub mod c10;
pub mod c11;
pub mod c12;
pub mod c13;
pub mod c14;
pub mod c15;
pub mod c16;
pub mod c17;
pub mod c18;
pub mod c19;
pub mod c20;

use crate::runner::Prop;

pub fn all() -> Vec<Box<dyn Prop>> {
    vec![Box::new(c01::C01), Box::new(c02::C02), Box::new(c03::C03), Box::new(c04::C04), Box::new(c05::C05), Box::new(c06::C06), Box::new(c07::C07), Box::new(c08::C08), Box::new(c09::C09), Box::new(c10::C10), Box::new(c11::C11), Box::new(c12::C12), Box::new(c13::C13), Box::new(c14::C14), Box::new(c15::C15), Box::new(c16::C16), Box::new(c17::C17), Box::new(c18::C18), Box::new(c19::C19), Box::new(c20::C20)]
}

pub fn by_id(id: &str) -> Option<Box<dyn Prop>> {
    // raw decoders of the coverage-guided tier (not properties of their own)
    if id == "C03R" {
        return Some(Box::new(c03::C03R));
    }
    if id == "C09R" {
        return Some(Box::new(c09::C09R));
    }
    if id == "C04R" {
        return Some(Box::new(c04::C04R));
    }
    all().into_iter().find(|p| p.id() == id)
}
