//! C19 — hyperlinks are well-formed, transparent, and point at the right target.
use serde_json::json;

use crate::exec;
use crate::gen::config::{gen_tagged_cfg, Cfg, CfgOpts, Tag};
use crate::gen::diff::{gen_case, gen_plain_case, GenOpts, Item, SK};
use crate::rows::{self, RowKind};
use crate::runner::{Ctx, Failure, Prop, Sup, Tier, Verdict};
use crate::tape::{fnv, fnv_add, Tape};
use crate::term;

pub struct C19;

pub fn identities() -> Vec<Vec<String>> {
    let v = |a: &[&str]| a.iter().map(|s| s.to_string()).collect::<Vec<_>>();
    vec![v(&["git", "diff"]), v(&["git", "diff"]), v(&["git", "diff"]), v(&["git", "log", "-p", "--relative"])]
}

fn normalize(p: &str) -> String {
    let mut parts: Vec<&str> = Vec::new();
    for c in p.split('/') {
        match c {
            "" | "." => {}
            ".." => {
                parts.pop();
            }
            x => parts.push(x),
        }
    }
    format!("/{}", parts.join("/"))
}

const FILE_TEMPLATES: &[&str] = &["file://{path}", "vscode://file/{path}:{line}", "x://{host}/{path}#{line}", "file-line://{path}:{line}", "{path}"];

impl Prop for C19 {
    fn id(&self) -> &'static str {
        "C19"
    }
    fn identities(&self) -> Vec<Vec<String>> {
        identities()
    }
    fn cases(&self, tier: Tier) -> usize {
        match tier {
            Tier::Quick => 12_000,
            Tier::Thorough => 250_000,
        }
    }
    fn tape_len(&self, _t: Tier) -> usize {
        3000
    }
    fn rule(&self) -> String {
        "cases = git diff streams (all section kinds, commit blocks; or a plain `diff -u` stream whose files are named by absolute paths) x tagged option set (unified or side-by-side, line numbers, narrow widths so that links sit on wrapped/truncated rows) x file-link template over {path},{line},{host} x commit-link template x working directory, GIT_PREFIX and --relative-paths (passed through DeltaEnv), under a plain `git diff` and a `git log -p --relative` calling process. Oracle: (1) removing complete OSC 8 sequences from the --hyperlinks output gives the output without --hyperlinks byte for byte; (2) every link opened on a line is closed on it; (3) every file link's URL equals the template instantiated with normalise(directory rule + path of the section the row belongs to) and, on number cells and hunk headers, with exactly the number displayed in the linked cells; every commit link's URL is the commit template instantiated with exactly the linked text. Non-trivial = >=1 file link carrying a line number and a GIT_PREFIX/relative-paths setting other than the default, or a side-by-side row with links; distinct by hash of (input, argv, env).".to_string()
    }
    fn assumptions(&self) -> Vec<String> {
        vec![
            "directory rule as documented in src/utils/path.rs comments: paths are relative to the repository root (= delta's cwd when run by git) unless the calling git command used --relative, then to cwd/GIT_PREFIX".to_string(),
            "remote-derived commit URLs (git remote of a real repository) are not covered in the quick tier".to_string(),
            "terminal model; tag attribution".to_string(),
        ]
    }
    fn needs_binary(&self) -> bool {
        false
    }
    fn check(&self, t: &mut Tape, ctx: &mut Ctx) -> Verdict {
        let mut co = CfgOpts::unified();
        co.side_by_side = None;
        co.allow_presets = false;
        co.allow_hyperlinks = false;
        co.allow_navigate = true;
        co.min_width = 30;
        let mut cfg = gen_tagged_cfg(t, &co);
        cfg.unset("features");
        cfg.unset("relative-paths");
        if t.coin() {
            cfg.flag("line-numbers");
        }
        let file_tpl = if t.coin() { Some(t.ps(FILE_TEMPLATES).to_string()) } else { None };
        if let Some(f) = &file_tpl {
            cfg.set("hyperlinks-file-link-format", f);
        }
        let commit_tpl = if t.coin() { Some(t.ps(&["https://example.com/c/{commit}", "x:{commit}:{commit}", "{commit}"]).to_string()) } else { None };
        if let Some(c) = &commit_tpl {
            cfg.set("hyperlinks-commit-link-format", c);
        }
        if cfg.get("commit-style") == Some("omit") {
            cfg.set("commit-style", "normal 39");
        }
        let cwd = t.ps(&["/work/repo", "/", "/home/u/my repo", "/tmp/ünï/r"]).to_string();
        let prefix = match t.weighted(&[3, 2, 1, 1, 1, 1]) {
            0 => None,
            1 => Some("src/".to_string()),
            2 => Some("a/b/".to_string()),
            // (the path grammar has `docs/x-1/`, `tests/ünï/`, `dir with space/`, `c/`: directories
            // whose names start like these without being below them)
            3 => Some("docs/x/".to_string()),
            4 => Some("test/".to_string()),
            _ => Some("dir/".to_string()),
        };
        let relative_paths = t.chance(1, 3);
        cfg.env.current_dir = Some(cwd.clone());
        cfg.env.hostname = Some("host.example".to_string());
        cfg.env.git_prefix = prefix.clone();
        // the displayed path may be rewritten; links keep pointing at the real file
        if t.chance(1, 4) {
            cfg.set("file-transformation", t.ps(&["s,src/,SRC/,", "s,^,top/,", "s,[a-z]+/,,", "s,\\.,_,g"]));
            ctx.class("file-transformation");
        }
        if relative_paths {
            cfg.flag("relative-paths");
        }
        let git_relative = ctx.identity.iter().any(|a| a == "--relative");
        let mut o = GenOpts::default_full();
        o.allow_combined = false;
        o.allow_plain = false;
        o.max_lines = 6;
        o.text.allow_long = true;
        o.text.long_tokens = 20;
        // `diff -u /abs/one/x /abs/two/x | delta`, `rg x /abs/dir | delta`: files named by absolute
        // path in the input are linked as they are named, whatever the working directory
        let plain_abs = !relative_paths && !git_relative && t.chance(1, 6);
        let mut case = if plain_abs {
            let mut c = gen_plain_case(t, &o);
            let (d1, d2) = (*t.pick(&["/srv/data/one/", "/", "/home/u/my-repo/"]), *t.pick(&["/srv/data/two/", "/tmp/ünï/", "/"]));
            for it in c.items.iter_mut() {
                if let Item::Section(s) = it {
                    s.old_path = format!("{}{}", d1, s.old_path);
                    s.new_path = format!("{}{}", d2, s.new_path);
                }
            }
            ctx.class("plain-diff-with-absolute-paths");
            c
        } else {
            gen_case(t, &o)
        };
        case.items.retain(|it| !matches!(it, Item::Section(s) if s.kind == SK::SubmoduleShort));
        // (under --relative-paths delta rewrites the diffstat lines of a commit block and links the
        // paths; elsewhere they pass through)
        let has_diffstat = case.items.iter().any(|it| matches!(it, Item::Commit(c) if !c.diffstat.is_empty()));
        ctx.class_if(has_diffstat && relative_paths, "diffstat-under-relative-paths");
        if case.sections().is_empty() {
            return Verdict::Skip("no-section");
        }
        crate::gen::config::keep_headers_intact(&mut cfg, &case.render());
        // a binary file whose mode changes as well: `old mode`/`new mode` lines in front of the
        // `index` and `Binary files ... differ` lines (no ---/+++ lines, no hunks)
        let input = {
            let mut lines = case.render();
            let secs = case.sections();
            let mut i = 0;
            while i < lines.len() {
                if let crate::gen::diff::Role::DiffLine { sec } = lines[i].role {
                    if secs.get(sec).map(|s| s.kind == SK::BinaryModified).unwrap_or(false) && t.chance(1, 2) {
                        lines.insert(i + 1, crate::gen::diff::InLine { text: "old mode 100644".to_string(), role: crate::gen::diff::Role::Mode { sec } });
                        lines.insert(i + 2, crate::gen::diff::InLine { text: "new mode 100755".to_string(), role: crate::gen::diff::Role::Mode { sec } });
                        ctx.class("binary-file-with-mode-change");
                        i += 2;
                    }
                }
                i += 1;
            }
            crate::gen::diff::lines_to_bytes(&lines, case.final_newline)
        };
        let mut cfg_h = cfg.clone();
        cfg_h.flag("hyperlinks");
        let run = |c: &Cfg, ctx: &Ctx| -> Result<Vec<u8>, Failure> {
            exec::run_cfg(c, ctx, &input).map_err(|mut f| {
                f.detail = json!({"case": exec::case_json(c, &input)});
                f.traits = crate::props::c03::failure_traits(c, &input);
                f
            })
        };
        let out_n = match run(&cfg, ctx) {
            Ok(o) => o,
            Err(f) => return Verdict::Fail(f),
        };
        let out_h = match run(&cfg_h, ctx) {
            Ok(o) => o,
            Err(f) => return Verdict::Fail(f),
        };
        let detail = || json!({"case": exec::case_json(&cfg_h, &input), "output_printable": exec::printable(&out_h[..out_h.len().min(6000)])});
        // (1) transparency
        let stripped = term::strip_osc8(&out_h);
        if stripped != out_n {
            let a: Vec<&[u8]> = stripped.split(|b| *b == b'\n').collect();
            let b: Vec<&[u8]> = out_n.split(|b| *b == b'\n').collect();
            let i = a.iter().zip(b.iter()).position(|(x, y)| x != y).unwrap_or(a.len().min(b.len()));
            return Verdict::Fail(
                Failure::new("C19:not-transparent", format!("with the OSC 8 sequences removed, output line {} differs from the output without --hyperlinks: `{}` vs `{}`", i + 1, exec::printable(a.get(i).copied().unwrap_or(b"<end>")), exec::printable(b.get(i).copied().unwrap_or(b"<end>"))))
                    .with(detail()),
            );
        }
        // (2)/(3)
        let sc = term::decode(&out_h);
        let secs = case.sections();
        let crows = rows::classify_all(&sc);
        let base = if git_relative { format!("{}/{}", cwd, prefix.clone().unwrap_or_default()) } else { cwd.clone() };
        let abs = |p: &str| if p.starts_with('/') { normalize(p) } else { normalize(&format!("{}/{}", base, p)) };
        let tpl = file_tpl.clone().unwrap_or_else(|| "file://{path}".to_string());
        let url_for = |p: &str, line: Option<&str>| tpl.replace("{path}", &abs(p)).replace("{host}", "host.example").replace("{line}", line.unwrap_or(""));
        let file_omitted = cfg.get("file-style") == Some("omit");
        let mut cur: Option<usize> = None;
        let mut deferred: Option<Failure> = None;
        let mut with_line = false;
        let mut sbs_links = false;
        for (ri, cr) in crows.iter().enumerate() {
            if cr.row.osc8_opens != cr.row.osc8_closes || cr.row.end_link_open {
                return Verdict::Fail(Failure::new("C19:unbalanced", format!("output row {}: {} link openers, {} closers", ri, cr.row.osc8_opens, cr.row.osc8_closes)).with(detail()));
            }
            if cr.kind == RowKind::FileHeader {
                cur = Some(cur.map(|c| c + 1).unwrap_or(0));
            }
            // runs of linked cells
            let mut i = 0;
            let cells = &cr.row.cells;
            while i < cells.len() {
                let l = match cells[i].link {
                    Some(l) => l,
                    None => {
                        i += 1;
                        continue;
                    }
                };
                let mut j = i;
                let mut text = String::new();
                while j < cells.len() && cells[j].link == Some(l) {
                    text.push_str(&cells[j].text);
                    j += 1;
                }
                let url = sc.links[l as usize].clone();
                let tag = Tag::from_color(cells[i].st.bg);
                let fail = |msg: String| Verdict::Fail(Failure::new("C19:wrong-target", format!("output row {}: link `{}` around `{}`: {}", ri, url, text, msg)).with(detail()));
                match (cr.kind, tag) {
                    (RowKind::Commit, _) => {
                        let t = text.trim();
                        if let Some(ct) = &commit_tpl {
                            if url != ct.replace("{commit}", t) {
                                return fail(format!("the commit template `{}` instantiated with the linked text gives `{}`", ct, ct.replace("{commit}", t)));
                            }
                        }
                    }
                    (RowKind::FileHeader, _) => {
                        if let (Some(c), false) = (cur, file_omitted) {
                            if let Some(s) = secs.get(c) {
                                // a header naming two files (rename, copy, plain diff) links each name to
                                // the file it names; `text` is what the link is wrapped around
                                let two_names = s.old_path != s.new_path && !(text.contains(s.old_path.as_str()) && text.contains(s.new_path.as_str()));
                                let ok = if two_names && text.trim() == s.old_path && !s.new_path.ends_with(s.old_path.as_str()) {
                                    url == url_for(&s.old_path, None)
                                } else if two_names && text.trim() == s.new_path && !s.old_path.ends_with(s.new_path.as_str()) {
                                    url == url_for(&s.new_path, None)
                                } else {
                                    url == url_for(&s.new_path, None) || url == url_for(&s.old_path, None)
                                };
                                if !ok {
                                    let v = fail(format!("the file header of section {} ({} -> {}) must link to `{}` (or the old path)", c, s.old_path, s.new_path, url_for(&s.new_path, None)));
                                    if let (Verdict::Fail(mut f), true) = (v, matches!(s.kind, SK::BinaryModified | SK::BinaryAdded | SK::BinaryDeleted)) {
                                        if url.contains(" (binary file)") {
                                            // the listed finding KF-C19-1: remembered and reported last,
                                            // so that the rest of the case is still examined
                                            f.traits.push("binary-file-annotation-in-url".to_string());
                                            if deferred.is_none() {
                                                deferred = Some(f);
                                            }
                                            i = j;
                                            continue;
                                        }
                                        return Verdict::Fail(f);
                                    }
                                    return fail(format!("the file header of section {} ({} -> {}) must link to `{}` (or the old path)", c, s.old_path, s.new_path, url_for(&s.new_path, None)));
                                }
                            }
                        }
                    }
                    (RowKind::HunkHeader, Some(Tag::HunkHeaderFile)) | (RowKind::HunkHeader, Some(Tag::HunkHeaderLn)) => {
                        if let (Some(c), false) = (cur, file_omitted) {
                            if let Some(s) = secs.get(c) {
                                // the whole `file:line` group is one link carrying the line number shown
                                let digits: String = cr.row.cells.iter().filter(|c| Tag::from_color(c.st.bg) == Some(Tag::HunkHeaderLn)).map(|c| c.text.as_str()).collect();
                                let p = if matches!(s.kind, SK::Deleted | SK::BinaryDeleted | SK::EmptyDeleted) { &s.old_path } else { &s.new_path };
                                // when no number is displayed the link still carries the start of (one of) the section's hunks
                                let ok = if digits.trim().is_empty() {
                                    url == url_for(p, None) || s.hunks.iter().any(|h| url == url_for(p, Some(&h.new_start.to_string())))
                                } else {
                                    url == url_for(p, Some(digits.trim()))
                                };
                                if !ok {
                                    return fail(format!("the hunk header of section {} must link to `{}`", c, url_for(p, Some(digits.trim()))));
                                }
                                if tpl.contains("{line}") && !digits.trim().is_empty() {
                                    with_line = true;
                                }
                            }
                        }
                    }
                    (_, Some(tg)) if tg.is_gutter() => {
                        if let (Some(c), false) = (cur, file_omitted) {
                            if let Some(s) = secs.get(c) {
                                let n = text.trim();
                                if n.is_empty() || !n.chars().all(|c| c.is_ascii_digit()) {
                                    // a linked blank / literal field: the number must still be consistent if present
                                    i = j;
                                    continue;
                                }
                                let want = url_for(&s.new_path, Some(n));
                                // (a panel too narrow for its gutter cuts the number short: the cell then
                                // shows the first digits of a line number of this section, which the link carries in full)
                                let cut_short = cfg.has("side-by-side")
                                    && s.hunks.iter().any(|h| (h.new_start..h.new_start + h.lines.len() + 1).any(|m| {
                                        let m = m.to_string();
                                        m.len() > n.len() && m.starts_with(n) && url == url_for(&s.new_path, Some(&m))
                                    }));
                                if url != want && !cut_short {
                                    return fail(format!("a line-number cell of section {} showing {} must link to `{}`", c, n, want));
                                }
                                if tpl.contains("{line}") {
                                    with_line = true;
                                }
                                if cfg.has("side-by-side") {
                                    sbs_links = true;
                                }
                            }
                        }
                    }
                    _ => {
                        // a diffstat line ` <path> | 12 ++--`: the displayed path is relative to the
                        // user's directory (cwd/GIT_PREFIX); the link names that file
                        let rt = cr.row.text();
                        let after = rt.trim_start().strip_prefix(text.as_str()).map(|r| r.trim_start().starts_with('|')).unwrap_or(false);
                        // (under `git log --relative` git itself has made the paths relative)
                        if relative_paths && !git_relative && after && rt.starts_with(' ') {
                            let user_dir = format!("{}/{}", cwd, prefix.clone().unwrap_or_default());
                            let want_abs = normalize(&format!("{}/{}", user_dir, text.trim()));
                            let want = tpl.replace("{path}", &want_abs).replace("{host}", "host.example").replace("{line}", "");
                            if url != want {
                                return fail(format!("the diffstat line shows `{}` relative to `{}`, so its link must be `{}`", text.trim(), user_dir, want));
                            }
                            let stat_paths: Vec<String> = case
                                .items
                                .iter()
                                .filter_map(|it| if let Item::Commit(c) = it { Some(c) } else { None })
                                .flat_map(|c| c.diffstat.iter())
                                .filter_map(|l| l.split(" | ").next().map(|p| p.trim().to_string()))
                                // (any other input line of that shape - a line of a commit message such as
                                // `    $ x | 5 +` - is a diffstat line to delta just the same)
                                .chain(String::from_utf8_lossy(&input).lines().filter(|l| l.starts_with(' ') && l.contains(" | ")).filter_map(|l| l.split(" | ").next().map(|p| p.trim().to_string())))
                                .collect();
                            if !stat_paths.iter().any(|p| abs(p) == want_abs) {
                                return fail(format!("the diffstat line shows `{}`, which names `{}`: not a file of this commit", text.trim(), want_abs));
                            }
                        }
                    }
                }
                i = j;
            }
        }
        if let Some(f) = deferred {
            return Verdict::Fail(f);
        }
        if (with_line && (prefix.is_some() || relative_paths)) || sbs_links {
            let mut h = fnv(&input);
            h = fnv_add(h, &cfg_h.fingerprint().to_le_bytes());
            ctx.nontrivial(h);
            if ctx.want_sample() {
                ctx.sample(json!({"argv": cfg_h.base_args().iter().filter(|a| !a.contains("-style=")).collect::<Vec<_>>(), "cwd": cwd, "GIT_PREFIX": prefix, "identity": ctx.identity, "links": sc.links.iter().take(6).collect::<Vec<_>>()}));
            }
        }
        ctx.class_if(relative_paths, "relative-paths");
        ctx.class_if(prefix.is_some(), "GIT_PREFIX");
        ctx.class_if(cfg.has("side-by-side"), "side-by-side");
        Verdict::Pass
    }
    fn supervisor_phase(&self, _sup: &mut Sup) {}
}
