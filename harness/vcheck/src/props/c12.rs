//! C12 — style strings mean what git's colour language says they mean.
use serde_json::json;

use crate::exec;
use crate::gen::config::Cfg;
use crate::refstyle::{self, ColorSpec, StyleSpec, ANSI_NAMES};
use crate::runner::{Ctx, Failure, Prop, Sup, Tier, Verdict};
use crate::tape::{fnv, fnv_add, Tape};
use crate::term::{self, Color, Screen, Sgr};

pub struct C12;

pub fn identities() -> Vec<Vec<String>> {
    let v = |a: &[&str]| a.iter().map(|s| s.to_string()).collect::<Vec<_>>();
    vec![v(&["git", "diff"]), v(&["git", "diff"]), v(&["git", "diff"]), v(&["git", "grep", "-n", "x"]), v(&["git", "blame", "probe.rs"])]
}

const HASH: &str = "0123456789abcdef0123456789abcdef01234567";

fn diff_probe() -> Vec<u8> {
    format!(
        "commit {}\nAuthor: A <a@example.com>\n\ndiff --git a/probe.txt b/probe.txt\nindex 1234567..89abcde 100644\n--- a/probe.txt\n+++ b/probe.txt\n@@ -10,7 +10,8 @@ FRAGTOKEN\n ZEROTOKEN\n-MINUSUNPAIRED\n ZEROTWO\n-same OLDTOK same2\n+same NEWTOK same2\n ZEROTHREE\n+PLUSUNPAIRED\n ZEROFOUR\n+wserr   \n LONGLONGLONGLONGLONGLONGLONGLONGLONGLONGLONGLONGLONGLONGLONGLONGLONGLONGLONGEND\n",
        HASH
    )
    .into_bytes()
}
fn grep_probe() -> Vec<u8> {
    b"src/probe.rs:12:let MATCHLINE = 1;\nsrc/probe.rs-13-let CTXLINE = 2;\n".to_vec()
}
fn blame_probe() -> Vec<u8> {
    b"abcd1234 (Author Name 2020-01-02 03:04:05 +0000 7) BLAMECODE here\n".to_vec()
}

/// (option, extra args, token whose cells are painted by the option, kind of probe)
#[derive(Clone, Copy, PartialEq, Eq, Debug)]
enum Probe {
    Diff,
    Grep,
    Blame,
}
struct Site {
    option: &'static str,
    extra: &'static [&'static str],
    token: &'static str,
    probe: Probe,
    /// in --show-config output?
    shown: bool,
}
const SITES: &[Site] = &[
    Site { option: "minus-style", extra: &[], token: "MINUSUNPAIRED", probe: Probe::Diff, shown: true },
    Site { option: "plus-style", extra: &[], token: "PLUSUNPAIRED", probe: Probe::Diff, shown: true },
    Site { option: "zero-style", extra: &[], token: "ZEROTOKEN", probe: Probe::Diff, shown: true },
    Site { option: "minus-emph-style", extra: &[], token: "OLDTOK", probe: Probe::Diff, shown: true },
    Site { option: "plus-emph-style", extra: &[], token: "NEWTOK", probe: Probe::Diff, shown: true },
    Site { option: "minus-non-emph-style", extra: &[], token: "-same2", probe: Probe::Diff, shown: true },
    Site { option: "plus-non-emph-style", extra: &[], token: "+same2", probe: Probe::Diff, shown: true },
    Site { option: "whitespace-error-style", extra: &[], token: "wserr|trailing", probe: Probe::Diff, shown: true },
    Site { option: "file-style", extra: &[], token: "probe.txt", probe: Probe::Diff, shown: true },
    Site { option: "commit-style", extra: &[], token: "commit", probe: Probe::Diff, shown: true },
    Site { option: "hunk-header-style", extra: &[], token: "FRAGTOKEN", probe: Probe::Diff, shown: false },
    // the same three header styles under --color-only (decorations are dropped there, text
    // attributes are not)
    Site { option: "file-style", extra: &["--color-only"], token: "plusfileline", probe: Probe::Diff, shown: false },
    Site { option: "commit-style", extra: &["--color-only"], token: "commit", probe: Probe::Diff, shown: false },
    Site { option: "hunk-header-style", extra: &["--color-only"], token: "FRAGTOKEN", probe: Probe::Diff, shown: false },
    Site { option: "hunk-header-file-style", extra: &["--hunk-header-style=file line-number"], token: "hh:probe.txt", probe: Probe::Diff, shown: false },
    Site { option: "hunk-header-line-number-style", extra: &["--hunk-header-style=file line-number"], token: "hh:10", probe: Probe::Diff, shown: false },
    Site { option: "line-numbers-minus-style", extra: &["--line-numbers"], token: "ln:MINUSUNPAIRED:11", probe: Probe::Diff, shown: false },
    Site { option: "line-numbers-plus-style", extra: &["--line-numbers"], token: "ln:PLUSUNPAIRED:14", probe: Probe::Diff, shown: false },
    Site { option: "line-numbers-zero-style", extra: &["--line-numbers"], token: "ln:ZEROTOKEN:10", probe: Probe::Diff, shown: false },
    Site { option: "line-numbers-left-style", extra: &["--line-numbers"], token: "sep:ZEROTOKEN:⋮", probe: Probe::Diff, shown: false },
    Site { option: "line-numbers-right-style", extra: &["--line-numbers"], token: "sep:ZEROTOKEN:│", probe: Probe::Diff, shown: false },
    Site { option: "inline-hint-style", extra: &["--side-by-side", "--width=60"], token: "hint", probe: Probe::Diff, shown: false },
    Site { option: "grep-file-style", extra: &[], token: "src/probe.rs", probe: Probe::Grep, shown: true },
    Site { option: "grep-line-number-style", extra: &[], token: "12", probe: Probe::Grep, shown: true },
    Site { option: "grep-match-line-style", extra: &[], token: "MATCHLINE", probe: Probe::Grep, shown: false },
    Site { option: "grep-context-line-style", extra: &[], token: "CTXLINE", probe: Probe::Grep, shown: false },
    Site { option: "blame-code-style", extra: &[], token: "BLAMECODE", probe: Probe::Blame, shown: false },
    Site { option: "blame-separator-style", extra: &[], token: "sepblame", probe: Probe::Blame, shown: false },
];

/// the renditions of the cells painted at the site (None if the site cannot be found)
fn site_cells(sc: &Screen, site: &Site) -> Option<Vec<Sgr>> {
    let find_token = |tok: &str, need_prefix: Option<char>| -> Option<Vec<Sgr>> {
        for r in &sc.rows {
            let text = r.text();
            if let Some(p) = need_prefix {
                // choose the removed (-) or added (+) row of the pair: it contains OLDTOK / NEWTOK
                let want = if p == '-' { "OLDTOK" } else { "NEWTOK" };
                if !text.contains(want) {
                    continue;
                }
            }
            if let Some(bpos) = text.find(tok) {
                let cstart = text[..bpos].chars().count();
                let n = tok.chars().count();
                // cells map 1:1 to chars here (ASCII probes)
                let cells: Vec<Sgr> = r.cells.iter().skip(cstart).take(n).map(|c| c.st).collect();
                if cells.len() == n {
                    return Some(cells);
                }
            }
        }
        None
    };
    let t = site.token;
    if let Some(tok) = t.strip_prefix('-') {
        return find_token(tok, Some('-'));
    }
    if let Some(tok) = t.strip_prefix('+') {
        return find_token(tok, Some('+'));
    }
    if t == "wserr|trailing" {
        for r in &sc.rows {
            let text = r.text();
            if let Some(b) = text.find("wserr") {
                let cstart = text[..b].chars().count() + 5;
                let cells: Vec<Sgr> = r.cells.iter().skip(cstart).take(3).map(|c| c.st).collect();
                if cells.len() == 3 {
                    return Some(cells);
                }
            }
        }
        return None;
    }
    if let Some(rest) = t.strip_prefix("hh:") {
        // in the hunk-header row (the one with FRAGTOKEN)
        for r in &sc.rows {
            let text = r.text();
            if text.contains("FRAGTOKEN") {
                if let Some(b) = text.find(rest) {
                    let cstart = text[..b].chars().count();
                    return Some(r.cells.iter().skip(cstart).take(rest.chars().count()).map(|c| c.st).collect());
                }
            }
        }
        return None;
    }
    if let Some(rest) = t.strip_prefix("ln:") {
        let (line_tok, num) = rest.split_once(':')?;
        for r in &sc.rows {
            let text = r.text();
            if let (Some(lp), Some(np)) = (text.find(line_tok), text.find(num)) {
                if np < lp {
                    let cstart = text[..np].chars().count();
                    return Some(r.cells.iter().skip(cstart).take(num.len()).map(|c| c.st).collect());
                }
            }
        }
        return None;
    }
    if let Some(rest) = t.strip_prefix("sep:") {
        let (line_tok, sep) = rest.split_once(':')?;
        for r in &sc.rows {
            let text = r.text();
            if let (Some(lp), Some(sp)) = (text.find(line_tok), text.find(sep)) {
                if sp < lp {
                    let cstart = text[..sp].chars().count();
                    return Some(r.cells.iter().skip(cstart).take(1).map(|c| c.st).collect());
                }
            }
        }
        return None;
    }
    if t == "plusfileline" {
        // --color-only: the `+++ b/probe.txt` line itself is what file-style paints
        for r in &sc.rows {
            if r.text().starts_with("+++ b/probe.txt") {
                return Some(r.cells.iter().take(15).map(|c| c.st).collect());
            }
        }
        return None;
    }
    if t == "hint" {
        for r in &sc.rows {
            if let Some(c) = r.cells.iter().find(|c| c.text == "↵" || c.text == "↴") {
                return Some(vec![c.st]);
            }
        }
        return None;
    }
    if t == "sepblame" {
        for r in &sc.rows {
            let text = r.text();
            if text.contains("BLAMECODE") {
                if let Some(b) = text.find('│') {
                    let cstart = text[..b].chars().count();
                    return Some(r.cells.iter().skip(cstart).take(1).map(|c| c.st).collect());
                }
            }
        }
        return None;
    }
    find_token(t, None)
}

fn base_cfg(truecolor: bool, site: &Site) -> Cfg {
    let mut c = Cfg::new();
    c.flag("dark");
    c.set("true-color", if truecolor { "always" } else { "never" });
    c.set("syntax-theme", "none");
    c.set("max-line-distance", "1");
    c.set("width", "100");
    for e in site.extra {
        let e = e.trim_start_matches("--");
        match e.split_once('=') {
            Some((k, v)) => c.set(k, v),
            None => c.flag(e),
        }
    }
    if site.option.starts_with("hunk-header") {
        c.set("hunk-header-decoration-style", "none");
    }
    c
}

fn expected_sgr(spec: &StyleSpec, baseline: Sgr) -> Sgr {
    let col = |c: ColorSpec, base: Color| match c {
        ColorSpec::Color(c) => c,
        ColorSpec::Normal => Color::Default,
        ColorSpec::Syntax => Color::Default, // syntax-theme none: no highlighting
        ColorSpec::Auto => base,
    };
    Sgr { fg: col(spec.fg, baseline.fg), bg: col(spec.bg, baseline.bg), attrs: spec.attrs }
}

fn input_for(p: Probe) -> Vec<u8> {
    match p {
        Probe::Diff => diff_probe(),
        Probe::Grep => grep_probe(),
        Probe::Blame => blame_probe(),
    }
}

fn probe_of_identity(identity: &[String]) -> Probe {
    match identity.get(1).map(|s| s.as_str()) {
        Some("grep") => Probe::Grep,
        Some("blame") => Probe::Blame,
        _ => Probe::Diff,
    }
}

/// how the style reaches delta and in which mode the site is rendered
#[derive(Clone, Copy, Default)]
struct Variant {
    /// the option is set in the `[delta]` section of a git config file, not on the command line
    via_gitconfig: bool,
    /// the site is looked at in the side-by-side view (left panel / unique tokens only)
    sbs: bool,
    /// a syntax theme is on (a `normal` foreground must then stay the default; what `syntax` gives
    /// is the theme's business and is not compared)
    theme: bool,
}

fn gitconfig_value(style: &str) -> String {
    format!("\"{}\"", style.replace('\\', "\\\\").replace('"', "\\\""))
}

/// Evaluate one (site, style string, colour mode) combination.
fn eval_one(site: &Site, style: &str, truecolor: bool, ctx: &Ctx, roundtrip: bool) -> Result<bool, Failure> {
    eval_variant(site, style, truecolor, ctx, roundtrip, Variant::default())
}

fn eval_variant(site: &Site, style: &str, truecolor: bool, ctx: &Ctx, roundtrip: bool, v: Variant) -> Result<bool, Failure> {
    let spec = match refstyle::parse_style(style, truecolor) {
        Some(s) => s,
        None => return Ok(false),
    };
    if spec.omit || spec.raw {
        return Ok(false); // (omit/raw have their own semantics: C02/C08/C14)
    }
    // `auto` = "let delta choose": only meaningful for the options whose documented default is an
    // automatic colour
    const AUTO_OK: &[&str] = &["minus-style", "minus-emph-style", "plus-style", "plus-emph-style"];
    if (spec.fg == ColorSpec::Auto || spec.bg == ColorSpec::Auto) && !AUTO_OK.contains(&site.option) {
        return Ok(false);
    }
    let input = input_for(site.probe);
    let mut base = base_cfg(truecolor, site);
    if v.sbs {
        base.flag("side-by-side");
    }
    if v.theme {
        base.set("syntax-theme", "Monokai Extended");
    }
    let mut cfg = base.clone();
    if v.via_gitconfig {
        cfg.gitconfig = Some(format!("[delta]\n    {} = {}\n", site.option, gitconfig_value(style)));
    } else {
        cfg.set(site.option, style);
    }
    let detail = |c: &Cfg| json!({"case": exec::case_json(c, &input), "option": site.option, "style": style, "true_color": truecolor});
    let run = |c: &Cfg| -> Result<Vec<u8>, Failure> { exec::run_cfg(c, ctx, &input).map_err(|f| f.with(detail(c))) };
    let out_base = run(&base)?;
    let out = run(&cfg)?;
    let (sb, so) = (term::decode(&out_base), term::decode(&out));
    let bcells = match site_cells(&sb, site) {
        Some(c) if !c.is_empty() => c,
        _ => return Err(Failure::new("C12:site-not-found", format!("rendering site of {} not found in the baseline output", site.option)).with(detail(&base))),
    };
    let cells = match site_cells(&so, site) {
        Some(c) if !c.is_empty() => c,
        _ => return Err(Failure::new("C12:site-not-found", format!("rendering site of {}=`{}` not found in the output", site.option, style)).with(detail(&cfg))),
    };
    let want = expected_sgr(&spec, bcells[0]);
    let fg_open = v.theme && matches!(spec.fg, ColorSpec::Syntax | ColorSpec::Auto);
    // (non-emph styles are ignored by design when they equal the emph style)
    if site.option.ends_with("non-emph-style") {
        let emph_site = SITES.iter().find(|s| s.option == if site.option.starts_with("minus") { "minus-emph-style" } else { "plus-emph-style" }).unwrap();
        if let Some(e) = site_cells(&sb, emph_site) {
            if e.first() == Some(&want) {
                return Ok(false);
            }
        }
    }
    // `syntax` as the foreground of a hunk-line style, with a theme on: the text is highlighted, so
    // every character carries a foreground colour from the theme (which one is the theme's business)
    let syntax_due = v.theme && spec.fg == ColorSpec::Syntax && matches!(site.option, "minus-style" | "plus-style" | "zero-style" | "minus-emph-style" | "plus-emph-style" | "minus-non-emph-style" | "plus-non-emph-style");
    for (i, c) in cells.iter().enumerate() {
        if syntax_due && c.fg == Color::Default {
            return Err(Failure::new(
                "C12:syntax-foreground-missing",
                format!("{}=`{}` with a syntax theme on: `syntax` asks for highlighted text, but character {} at the option's rendering site has no foreground colour ({:?})", site.option, style, i, c),
            )
            .with(detail(&cfg))
            .traits(vec![format!("option:{}", site.option)]));
        }
        let c = &if fg_open { Sgr { fg: want.fg, ..*c } } else { *c };
        if *c != want {
            return Err(Failure::new(
                "C12:wrong-rendition",
                format!("{}=`{}` ({}{}{}): the language says fg {:?} bg {:?} attrs {:#b}; character {} at the option's rendering site is painted {:?}", site.option, style, if truecolor { "24-bit" } else { "256 colours" }, if v.via_gitconfig { ", set in a git config file" } else { "" }, if v.sbs { ", side-by-side" } else { "" }, want.fg, want.bg, want.attrs, i, c),
            )
            .with(detail(&cfg))
            .traits({
                let mut v = vec![format!("option:{}", site.option)];
                if matches!(spec.bg, ColorSpec::Normal) {
                    v.push("no-background".to_string());
                }
                v
            }));
        }
    }
    // round trip through --show-config
    if roundtrip && site.shown && !v.via_gitconfig {
        let sess = exec::session(&cfg, ctx)?;
        let shown = sess.show_config();
        let key = format!("{} ", site.option);
        if let Some(line) = shown.lines().find(|l| l.trim_start().starts_with(&key) && l.contains('=')) {
            let vis = term::visible_text(line.as_bytes());
            let value = vis.splitn(2, '=').nth(1).unwrap_or("").trim().to_string();
            let mut cfg2 = base.clone();
            cfg2.set(site.option, &value);
            let out2 = run(&cfg2)?;
            if out2 != out {
                return Err(Failure::new(
                    "C12:show-config-roundtrip",
                    format!("{}=`{}` is reported by --show-config as `{}`; supplying that value again renders differently", site.option, style, value),
                )
                .with(detail(&cfg)));
            }
        }
    }
    Ok(style.split_whitespace().count() >= 2)
}

const ATTRS: &[&str] = &["bold", "dim", "italic", "ul", "blink", "reverse", "hidden", "strike"];

fn random_case(t: &mut Tape, s: &str) -> String {
    match t.weighted(&[4, 1, 1]) {
        0 => s.to_string(),
        1 => s.to_uppercase(),
        _ => s.chars().enumerate().map(|(i, c)| if i % 2 == 0 { c.to_ascii_uppercase() } else { c }).collect(),
    }
}

fn gen_color_word(t: &mut Tape) -> String {
    match t.weighted(&[3, 3, 3, 1, 1, 1]) {
        0 => ANSI_NAMES[t.below(ANSI_NAMES.len())].0.to_string(),
        1 => t.below(256).to_string(),
        2 => format!("#{:02x}{:02x}{:02x}", t.below(256), t.below(256), t.below(256)),
        3 => "normal".to_string(),
        4 => "auto".to_string(),
        _ => t.ps(&["orange", "rebeccapurple", "lightgray", "navy"]).to_string(),
    }
}

fn gen_style(t: &mut Tape, allow_underline_word: bool, allow_syntax: bool) -> String {
    let mut words: Vec<String> = Vec::new();
    let nc = t.weighted(&[1, 3, 4]);
    for ci in 0..nc {
        // (`syntax` is a foreground word: the text keeps the colours of the syntax theme)
        let w = if ci == 0 && allow_syntax && t.chance(1, 5) { "syntax".to_string() } else { gen_color_word(t) };
        let w = random_case(t, &w);
        words.push(if t.chance(1, 6) { format!("\"{}\"", w) } else { w });
    }
    let na = t.weighted(&[3, 3, 2, 1]);
    for _ in 0..na {
        // (in commit/file/hunk-header styles the word `underline` requests an underline
        // *decoration*; the text attribute is spelled `ul` there)
        let a = if t.chance(1, 10) && allow_underline_word { "underline" } else { *t.pick(ATTRS) };
        let a = random_case(t, a);
        let pos = t.below(words.len() + 1);
        words.insert(pos, a);
    }
    words.join(if t.chance(1, 8) { "  " } else { " " })
}

impl Prop for C12 {
    fn id(&self) -> &'static str {
        "C12"
    }
    fn identities(&self) -> Vec<Vec<String>> {
        identities()
    }
    fn cases(&self, tier: Tier) -> usize {
        match tier {
            Tier::Quick => 16_000,
            Tier::Thorough => 120_000,
        }
    }
    fn tape_len(&self, _t: Tier) -> usize {
        200
    }
    fn rule(&self) -> String {
        "style strings of git's colour language: (E) exhaustive - all 256 palette numbers as foreground and as background, all ANSI-named x ANSI-named pairs (both spellings), all 256 attribute subsets with one colour pair, all orderings of one colour pair + one attribute; (R) random - 0-2 colours (named, bright-named, 0-255, #rrggbb, CSS names, normal/auto) + 0-3 attributes in any order, random letter case, quoting and spacing. Each string is set on one style-typed option at a time (25 options with a rendering site in a fixed probe diff / grep / blame input under the matching calling process), in 24-bit and 256-colour mode. Oracle: an independent reference parser gives (fg, bg, attrs); the cells painted at the option's site must carry exactly that rendition (auto = the default rendition's colour; #rrggbb in 256-colour mode = nearest palette entry); the value --show-config prints for the option, supplied again, renders identically. Non-trivial = strings with >=2 tokens; distinct by (option, string, mode).".to_string()
    }
    fn assumptions(&self) -> Vec<String> {
        vec![
            "reference parser written from `delta --help` STYLES/COLORS (harness/vcheck/src/refstyle.rs); nearest-palette fallback = ansi_colours::ansi256_from_rgb".to_string(),
            "terminal model; probe inputs with unique ASCII tokens locate each option's rendering site".to_string(),
            "omit/raw, decoration-style attribute words and the special words of hunk-header-style are other properties' concern; `syntax` is rendered with theme none".to_string(),
        ]
    }
    fn needs_binary(&self) -> bool {
        false
    }
    fn exhaustive_phase(&self, shard: usize, nshards: usize, ctx: &mut Ctx) -> Vec<Failure> {
        let my_probe = probe_of_identity(&ctx.identity);
        let sites: Vec<&Site> = SITES.iter().filter(|s| s.probe == my_probe).collect();
        let mut styles: Vec<String> = Vec::new();
        for n in 0..256 {
            styles.push(format!("{}", n));
            styles.push(format!("normal {}", n));
        }
        for (a, _) in ANSI_NAMES {
            for (b, _) in ANSI_NAMES {
                styles.push(format!("{} {}", a, b));
            }
        }
        for mask in 0..256u32 {
            let mut w: Vec<&str> = vec!["cyan", "17"];
            for (i, a) in ATTRS.iter().enumerate() {
                if mask & (1 << i) != 0 {
                    w.push(a);
                }
            }
            styles.push(w.join(" "));
        }
        for perm in [["bold", "red", "19"], ["red", "bold", "19"], ["red", "19", "bold"]] {
            styles.push(perm.join(" "));
        }
        let mut fails = Vec::new();
        let mut n = 0u64;
        let total = styles.len();
        for (idx, st) in styles.iter().enumerate() {
            // each string on a rotating option (all options are covered many times over), both modes in turn;
            // the three core options get every string in the thorough tier
            let targets: Vec<&Site> = if ctx.tier == Tier::Thorough { sites.clone() } else { vec![sites[idx % sites.len()]] };
            for (k, site) in targets.iter().enumerate() {
                let job = idx * 31 + k;
                if job % nshards != shard {
                    continue;
                }
                // only workers with the right identity can render the site: the shards of one identity share the work
                let truecolor = (idx + k) % 2 == 0;
                n += 1;
                match eval_one(site, st, truecolor, ctx, idx % 7 == 0) {
                    Ok(nt) => {
                        if nt {
                            ctx.nontrivial(fnv_add(fnv(st.as_bytes()), site.option.as_bytes()));
                        }
                    }
                    Err(f) => {
                        if fails.len() < 6 && !fails.iter().any(|x: &Failure| x.signature == f.signature) {
                            fails.push(f);
                        }
                    }
                }
            }
        }
        ctx.notes.insert("exhaustive-evaluations".to_string(), n);
        ctx.notes.insert(format!("exhaustive-strings-{:?}", my_probe), total as u64);
        if ctx.samples.is_empty() {
            ctx.samples.push(json!({"exhaustive": true, "examples": ["200", "normal 17", "bright-red brightblue", "cyan 17 bold dim hidden", "red bold 19"]}));
        }
        fails
    }
    fn check(&self, t: &mut Tape, ctx: &mut Ctx) -> Verdict {
        let my_probe = probe_of_identity(&ctx.identity);
        let sites: Vec<&Site> = SITES.iter().filter(|s| s.probe == my_probe).collect();
        let site = sites[t.below(sites.len())];
        let code_site = matches!(site.option, "minus-style" | "plus-style" | "zero-style" | "minus-emph-style" | "plus-emph-style" | "minus-non-emph-style" | "plus-non-emph-style");
        let mut style = gen_style(t, !(matches!(site.option, "commit-style" | "file-style") || site.option.starts_with("hunk-header")), code_site);
        let truecolor = t.coin();
        ctx.class(site.option);
        // (drawn from a fork: the site and style of a case do not depend on it)
        let mut vt = t.fork(12);
        let mut v = Variant::default();
        if my_probe == Probe::Diff && vt.chance(1, 2) {
            v.via_gitconfig = vt.chance(2, 3);
            v.sbs = matches!(site.option, "minus-style" | "minus-emph-style" | "minus-non-emph-style" | "plus-style" | "zero-style") && site.extra.is_empty() && vt.coin();
            v.theme = v.sbs || vt.coin();
            // (`normal <background>` is the form of delta's own defaults for the removed-line styles,
            // the one it rewrites to `syntax ...` for its side-by-side default: a user's value is not a default)
            if v.sbs && vt.coin() {
                style = format!("normal {}", vt.ps(&["52", "\"#400000\"", "17", "#003300", "bold 88"]));
            }
            ctx.class_if(v.via_gitconfig, "style-from-git-config");
            ctx.class_if(v.sbs, "site-in-side-by-side");
            ctx.class_if(v.theme, "syntax-theme-on");
        }
        match eval_variant(site, &style, truecolor, ctx, true, v) {
            Ok(nt) => {
                if nt {
                    ctx.nontrivial(fnv_add(fnv(style.as_bytes()), format!("{}{}", site.option, truecolor).as_bytes()));
                    if ctx.want_sample() {
                        ctx.sample(json!({"option": site.option, "style": style, "true_color": truecolor}));
                    }
                }
                Verdict::Pass
            }
            Err(f) => Verdict::Fail(f),
        }
    }
    fn supervisor_phase(&self, sup: &mut Sup) {
        sup.exhaustive = Some(true);
    }
}
