//! vcheck as a library: the generators, oracles and runner are shared by the `vcheck` binary
//! (proptest-driven, supervisor/worker) and by the libFuzzer target in `harness/fuzz`.
pub mod exec;
pub mod exittrap;
pub mod fuzzapi;
pub mod fuzzdrv;
pub mod gen;
pub mod minimize;
pub mod props;
pub mod refstyle;
pub mod rows;
pub mod runner;
pub mod tape;
pub mod term;
pub mod xcheck;
