//! Row classification by tags and expected-text functions shared by C01/C05/C07/C14.
use crate::gen::config::{Cfg, RowTags, Tag};
use crate::gen::diff::{HLine, LK};
use crate::term::{Row, Screen};

#[derive(Clone, Copy, Debug, PartialEq, Eq)]
pub enum RowKind {
    Minus,
    Zero,
    Plus,
    /// both minus and plus tags on one row (side-by-side, or the submodule summary)
    Mixed,
    FileHeader,
    HunkHeader,
    Commit,
    Other,
}

pub struct CRow<'a> {
    pub row: &'a Row,
    pub tags: RowTags,
    pub kind: RowKind,
}

pub fn classify(row: &Row) -> (RowTags, RowKind) {
    let tags = RowTags::of(row);
    let m = tags.any(|t| t.is_minus());
    let p = tags.any(|t| t.is_plus());
    let z = tags.any(|t| t.is_zero());
    let kind = if tags.has(Tag::File) {
        RowKind::FileHeader
    } else if tags.has(Tag::HunkHeader) || tags.has(Tag::HunkHeaderFile) || tags.has(Tag::HunkHeaderLn) {
        RowKind::HunkHeader
    } else if tags.has(Tag::Commit) {
        RowKind::Commit
    } else if (m as u8 + p as u8 + z as u8) > 1 {
        RowKind::Mixed
    } else if m {
        RowKind::Minus
    } else if p {
        RowKind::Plus
    } else if z {
        RowKind::Zero
    } else {
        RowKind::Other
    };
    (tags, kind)
}

pub fn classify_all(sc: &Screen) -> Vec<CRow<'_>> {
    sc.rows
        .iter()
        .map(|r| {
            let (tags, kind) = classify(r);
            CRow { row: r, tags, kind }
        })
        .collect()
}

/// text of the cells that are not gutter (line-number) cells
pub fn text_without_gutter(row: &Row) -> String {
    let mut s = String::new();
    for c in &row.cells {
        if let Some(t) = Tag::from_color(c.st.bg) {
            if t.is_gutter() {
                continue;
            }
        }
        s.push_str(&c.text);
    }
    s
}

pub fn tab_width(cfg: &Cfg) -> usize {
    cfg.get("tabs").and_then(|s| s.parse().ok()).unwrap_or(8)
}

pub fn expand_tabs(s: &str, tabw: usize) -> String {
    if tabw == 0 {
        s.to_string()
    } else {
        s.replace('\t', &" ".repeat(tabw))
    }
}

/// Reference for what a hunk line shows in the unified view: marker column removed (or kept),
/// tabs replaced by `tabs` spaces.  Combined-diff lines keep their prefix columns (delta
/// documents that it always shows them outside conflict regions).
pub fn expected_unified_text(l: &HLine, cfg: &Cfg, combined: bool) -> String {
    let keep = cfg.has("keep-plus-minus-markers");
    let body = expand_tabs(&l.text, tab_width(cfg));
    if combined {
        format!("{}{}", l.prefix, body)
    } else if keep {
        format!("{}{}", l.prefix, body)
    } else {
        body
    }
}

pub fn kind_of(k: LK) -> RowKind {
    match k {
        LK::Ctx => RowKind::Zero,
        LK::Minus => RowKind::Minus,
        LK::Plus => RowKind::Plus,
    }
}

pub fn max_line_length(cfg: &Cfg) -> usize {
    cfg.get("max-line-length").and_then(|s| s.parse().ok()).unwrap_or(3000)
}
