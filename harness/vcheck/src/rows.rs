//! Row classification by tags and expected-text functions shared by C01/C05/C07/C14.
use crate::gen::config::{Cfg, RowTags, Tag};
use crate::gen::diff::{HLine, LK};
use crate::term::{Row, Screen};


#[derive(Clone, Copy, Debug, PartialEq, Eq)]
pub enum RowKind {
    Minus,
    Zero,
    Plus,
    /// both minus and plus tags on one row (side-by-side, or the submodule summary)
    Mixed,
    FileHeader,
    HunkHeader,
    Commit,
    Other,
}

pub struct CRow<'a> {
    pub row: &'a Row,
    pub tags: RowTags,
    pub kind: RowKind,
}

pub fn classify(row: &Row) -> (RowTags, RowKind) {
    let tags = RowTags::of(row);
    let m = tags.any(|t| t.is_minus());
    let p = tags.any(|t| t.is_plus());
    let z = tags.any(|t| t.is_zero());
    let kind = if tags.has(Tag::File) {
        RowKind::FileHeader
    } else if tags.has(Tag::HunkHeader) || tags.has(Tag::HunkHeaderFile) || tags.has(Tag::HunkHeaderLn) {
        RowKind::HunkHeader
    } else if tags.has(Tag::Commit) {
        RowKind::Commit
    } else if (m as u8 + p as u8 + z as u8) > 1 {
        RowKind::Mixed
    } else if m {
        RowKind::Minus
    } else if p {
        RowKind::Plus
    } else if z {
        RowKind::Zero
    } else {
        RowKind::Other
    };
    (tags, kind)
}

pub fn classify_all(sc: &Screen) -> Vec<CRow<'_>> {
    sc.rows
        .iter()
        .map(|r| {
            let (tags, kind) = classify(r);
            CRow { row: r, tags, kind }
        })
        .collect()
}

/// text of the cells that are not gutter (line-number) cells
pub fn text_without_gutter(row: &Row) -> String {
    let mut s = String::new();
    for c in &row.cells {
        if let Some(t) = Tag::from_color(c.st.bg) {
            if t.is_gutter() {
                continue;
            }
        }
        s.push_str(&c.text);
    }
    s
}

pub fn tab_width(cfg: &Cfg) -> usize {
    cfg.get("tabs").and_then(|s| s.parse().ok()).unwrap_or(8)
}

pub fn expand_tabs(s: &str, tabw: usize) -> String {
    if tabw == 0 {
        s.to_string()
    } else {
        s.replace('\t', &" ".repeat(tabw))
    }
}

/// Reference for what a hunk line shows in the unified view: marker column removed (or kept),
/// tabs replaced by `tabs` spaces.  Combined-diff lines keep their prefix columns (delta
/// documents that it always shows them outside conflict regions).
pub fn expected_unified_text(l: &HLine, cfg: &Cfg, combined: bool) -> String {
    let keep = cfg.has("keep-plus-minus-markers");
    let body = expand_tabs(&l.text, tab_width(cfg));
    if combined {
        format!("{}{}", l.prefix, body)
    } else if keep {
        format!("{}{}", l.prefix, body)
    } else {
        body
    }
}

pub fn kind_of(k: LK) -> RowKind {
    match k {
        LK::Ctx => RowKind::Zero,
        LK::Minus => RowKind::Minus,
        LK::Plus => RowKind::Plus,
    }
}

pub fn max_line_length(cfg: &Cfg) -> usize {
    cfg.get("max-line-length").and_then(|s| s.parse().ok()).unwrap_or(3000)
}

// ---------------------------------------------------------------------------------------------
// side-by-side rows

#[derive(Clone, Debug, Default)]
pub struct Panel {
    /// integers found in the number cells of this panel's gutter (cells painted with the
    /// minus/zero/plus line-number styles), in order
    pub numbers: Vec<u64>,
    /// tags of the gutter's number cells
    pub number_tags: Vec<Tag>,
    /// content cells (after the gutter), as (text, width, tag)
    pub cells: Vec<(String, usize, Option<Tag>)>,
    /// display column at which this panel's content starts
    pub content_col: usize,
    /// display column at which this panel (its gutter) starts
    pub start_col: usize,
}

impl Panel {
    pub fn text(&self) -> String {
        self.cells.iter().map(|c| c.0.as_str()).collect()
    }
    /// content without wrap symbols (inline-hint cells)
    pub fn text_without_hints(&self) -> String {
        self.cells.iter().filter(|c| c.2 != Some(Tag::InlineHint)).map(|c| c.0.as_str()).collect()
    }
    pub fn has(&self, f: impl Fn(Tag) -> bool) -> bool {
        self.cells.iter().any(|c| c.2.map(|t| f(t)).unwrap_or(false))
    }
    pub fn width(&self) -> usize {
        self.cells.iter().map(|c| c.1).sum()
    }
}

fn ints_of(s: &str) -> Vec<u64> {
    let mut v = Vec::new();
    let mut cur = String::new();
    for c in s.chars() {
        if c.is_ascii_digit() {
            cur.push(c);
        } else if !cur.is_empty() {
            v.push(cur.parse().unwrap_or(u64::MAX));
            cur.clear();
        }
    }
    if !cur.is_empty() {
        v.push(cur.parse().unwrap_or(u64::MAX));
    }
    v
}

fn is_number_tag(t: Tag) -> bool {
    matches!(t, Tag::LnMinus | Tag::LnZero | Tag::LnPlus)
}

/// Split a row of the side-by-side view with line numbers into its two panels.  Returns None if
/// the row has no two gutters (not a side-by-side content row).
pub fn split_sbs(row: &Row) -> Option<(Panel, Panel)> {
    let tag_of = |i: usize| Tag::from_color(row.cells[i].st.bg);
    let is_g = |i: usize| tag_of(i).map(|t| t.is_gutter()).unwrap_or(false);
    let n = row.cells.len();
    let mut i0 = 0;
    while i0 < n && is_g(i0) {
        i0 += 1;
    }
    if i0 == 0 || i0 == n {
        return None;
    }
    let mut i1 = i0;
    while i1 < n && !is_g(i1) {
        i1 += 1;
    }
    if i1 == n {
        return None;
    }
    let mut i2 = i1;
    while i2 < n && is_g(i2) {
        i2 += 1;
    }
    let mk = |g: std::ops::Range<usize>, c: std::ops::Range<usize>| -> Panel {
        let mut p = Panel::default();
        let mut numtext = String::new();
        p.start_col = row.cells[..g.start].iter().map(|c| c.width).sum();
        for i in g.clone() {
            if let Some(t) = tag_of(i) {
                if is_number_tag(t) {
                    numtext.push_str(&row.cells[i].text);
                    if !p.number_tags.contains(&t) {
                        p.number_tags.push(t);
                    }
                    continue;
                }
            }
            numtext.push('|');
        }
        p.numbers = ints_of(&numtext);
        p.content_col = row.cells[..c.start].iter().map(|c| c.width).sum();
        for i in c {
            p.cells.push((row.cells[i].text.clone(), row.cells[i].width, tag_of(i)));
        }
        p
    };
    Some((mk(0..i0, i0..i1), mk(i1..i2, i2..n)))
}

/// numbers in the gutter of a unified row, in order
pub fn unified_gutter_numbers(row: &Row) -> Vec<u64> {
    let mut numtext = String::new();
    for c in &row.cells {
        match Tag::from_color(c.st.bg) {
            Some(t) if is_number_tag(t) => numtext.push_str(&c.text),
            Some(t) if t.is_gutter() => numtext.push('|'),
            _ => break,
        }
    }
    ints_of(&numtext)
}

/// placeholders ({nm} = false, {np} = true) of a line-number format string, in order
pub fn placeholders(fmt: &str) -> Vec<bool> {
    let mut v = Vec::new();
    let b = fmt.as_bytes();
    let mut i = 0;
    while i + 3 < b.len() + 1 {
        if b[i] == b'{' && i + 3 <= b.len() {
            let name = &fmt[i + 1..(i + 3).min(fmt.len())];
            let after = fmt[i + 3..].chars().next();
            if (name == "nm" || name == "np") && matches!(after, Some('}') | Some(':')) {
                v.push(name == "np");
            }
        }
        i += 1;
    }
    v
}
