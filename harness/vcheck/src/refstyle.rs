//! Independent reference parser of git's colour/attribute language as delta documents it
//! (`delta --help`, STYLES and COLORS sections).  Shares no code with src/parse_style.rs.
use crate::term::{Color, Sgr, BLINK, BOLD, DIM, HIDDEN, ITALIC, REVERSE, STRIKE, UNDERLINE};

#[derive(Clone, Copy, Debug, PartialEq, Eq)]
pub enum ColorSpec {
    /// terminal default ("normal", or no colour given)
    Normal,
    Auto,
    Syntax,
    Color(Color),
}

#[derive(Clone, Debug, PartialEq, Eq)]
pub struct StyleSpec {
    pub fg: ColorSpec,
    pub bg: ColorSpec,
    pub attrs: u16,
    pub omit: bool,
    pub raw: bool,
}

pub const ANSI_NAMES: &[(&str, u8)] = &[
    ("black", 0), ("red", 1), ("green", 2), ("yellow", 3), ("blue", 4), ("magenta", 5), ("purple", 5), ("cyan", 6), ("white", 7),
    ("brightblack", 8), ("brightred", 9), ("brightgreen", 10), ("brightyellow", 11), ("brightblue", 12), ("brightmagenta", 13), ("brightpurple", 13), ("brightcyan", 14), ("brightwhite", 15),
    ("bright-black", 8), ("bright-red", 9), ("bright-green", 10), ("bright-yellow", 11), ("bright-blue", 12), ("bright-magenta", 13), ("bright-purple", 13), ("bright-cyan", 14), ("bright-white", 15),
];

/// `true_color == false`: an RGB colour is shown as the nearest 256-palette entry (the documented
/// fallback; nearest-colour function of the `ansi_colours` crate)
pub fn parse_color(word: &str, true_color: bool) -> Option<ColorSpec> {
    let w = word.to_lowercase();
    match w.as_str() {
        "normal" => return Some(ColorSpec::Normal),
        "auto" => return Some(ColorSpec::Auto),
        "syntax" => return Some(ColorSpec::Syntax),
        _ => {}
    }
    let rgb = |r: u8, g: u8, b: u8| {
        if true_color {
            ColorSpec::Color(Color::Rgb(r, g, b))
        } else {
            ColorSpec::Color(Color::Idx(ansi_colours::ansi256_from_rgb((r, g, b))))
        }
    };
    if let Some(hex) = w.strip_prefix('#') {
        if hex.len() == 6 && hex.chars().all(|c| c.is_ascii_hexdigit()) {
            let v = u32::from_str_radix(hex, 16).ok()?;
            return Some(rgb((v >> 16) as u8, (v >> 8) as u8, v as u8));
        }
        return None;
    }
    if let Ok(n) = w.parse::<u8>() {
        return Some(ColorSpec::Color(Color::Idx(n)));
    }
    if let Some((_, n)) = ANSI_NAMES.iter().find(|(k, _)| *k == w) {
        return Some(ColorSpec::Color(Color::Idx(*n)));
    }
    if let Some(c) = palette::named::from_str(&w) {
        return Some(rgb(c.red, c.green, c.blue));
    }
    None
}

pub fn parse_style(s: &str, true_color: bool) -> Option<StyleSpec> {
    let mut st = StyleSpec { fg: ColorSpec::Normal, bg: ColorSpec::Normal, attrs: 0, omit: false, raw: false };
    let mut ncolors = 0;
    for word in s.split_whitespace() {
        let w = word.trim_matches(|c| c == '"' || c == '\'').to_lowercase();
        match w.as_str() {
            "bold" => st.attrs |= BOLD,
            "dim" => st.attrs |= DIM,
            "italic" => st.attrs |= ITALIC,
            "ul" | "underline" => st.attrs |= UNDERLINE,
            "blink" => st.attrs |= BLINK,
            "reverse" => st.attrs |= REVERSE,
            "hidden" => st.attrs |= HIDDEN,
            "strike" => st.attrs |= STRIKE,
            "omit" => st.omit = true,
            "raw" => st.raw = true,
            "line-number" | "file" | "omit-code-fragment" => {}
            _ => {
                let c = parse_color(&w, true_color)?;
                match ncolors {
                    0 => st.fg = c,
                    1 => {
                        if c == ColorSpec::Syntax {
                            return None;
                        }
                        st.bg = c
                    }
                    _ => return None,
                }
                ncolors += 1;
            }
        }
    }
    Some(st)
}

impl StyleSpec {
    /// the rendition text painted with this style carries (for concrete colours only)
    pub fn sgr(&self) -> Sgr {
        let col = |c: ColorSpec| match c {
            ColorSpec::Color(c) => c,
            _ => Color::Default,
        };
        Sgr { fg: col(self.fg), bg: col(self.bg), attrs: self.attrs }
    }
}
