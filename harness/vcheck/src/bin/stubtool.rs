//! One executable installed under several names (git, rg, less, pager, diff, ...) in a per-run
//! stub directory placed first on PATH (DESIGN §2.7).
//!
//! * launcher  (env STUBTOOL_EXEC set): gives delta a parent process whose argv is exactly what
//!   the case wants: runs $STUBTOOL_EXEC with the JSON argv in $STUBTOOL_EXEC_ARGS as a child,
//!   stdio inherited, waits for it and exits with its status.
//! * child     (env STUBTOOL_SCRIPT set): plays a canned role described by a JSON file:
//!   {"stdout_file": path, "stderr": text, "status": n, "delay_ms": n,
//!    "record": path,            -- append a JSON line {argv, env subset, stdin_len, stdin_file}
//!    "read_stdin": bool, "stdin_file": path, "read_lines": n (stop reading after n lines),
//!    "exit_stamp": path         -- file created just before exiting (after delay),
//!    "stdout_fifo": path        -- copy this FIFO to stdout as bytes arrive, until end of file}
//! * otherwise exits 127 so that an unexpected invocation is visible.
use std::io::{Read, Write};
use std::process::{Command, Stdio};

fn main() {
    let args: Vec<String> = std::env::args().collect();
    if let Ok(exe) = std::env::var("STUBTOOL_EXEC") {
        let child_args: Vec<String> = std::env::var("STUBTOOL_EXEC_ARGS")
            .ok()
            .and_then(|s| serde_json::from_str(&s).ok())
            .unwrap_or_default();
        let st = Command::new(&exe)
            .args(&child_args)
            .env_remove("STUBTOOL_EXEC")
            .env_remove("STUBTOOL_EXEC_ARGS")
            .stdin(Stdio::inherit())
            .stdout(Stdio::inherit())
            .stderr(Stdio::inherit())
            .status();
        match st {
            Ok(st) => {
                if let Some(c) = st.code() {
                    std::process::exit(c)
                }
                std::process::exit(128 + std::os::unix::process::ExitStatusExt::signal(&st).unwrap_or(0));
            }
            Err(e) => {
                eprintln!("stubtool launcher: cannot run {}: {}", exe, e);
                std::process::exit(126);
            }
        }
    }
    if let Ok(script) = std::env::var("STUBTOOL_SCRIPT") {
        let v: serde_json::Value = std::fs::read_to_string(&script)
            .ok()
            .and_then(|s| serde_json::from_str(&s).ok())
            .unwrap_or(serde_json::Value::Null);
        // per-name section, if any:  {"by_name": {"less": {...}, "git": {...}}}
        let name = std::path::Path::new(&args[0]).file_name().unwrap().to_string_lossy().to_string();
        let v = v.get("by_name").and_then(|m| m.get(&name)).cloned().unwrap_or(v);
        // per-argument section: {"if_arg": {"--version": {...}}} (first match wins)
        let v = v
            .get("if_arg")
            .and_then(|m| m.as_object())
            .and_then(|m| m.iter().find(|(k, _)| args[1..].iter().any(|a| a == *k)).map(|(_, s)| s.clone()))
            .unwrap_or(v);
        let mut stdin_len = 0usize;
        if v.get("read_stdin").and_then(|x| x.as_bool()).unwrap_or(false) {
            let mut buf = Vec::new();
            let max_lines = v.get("read_lines").and_then(|x| x.as_u64());
            let stdin = std::io::stdin();
            let mut lock = stdin.lock();
            match max_lines {
                None => {
                    let _ = lock.read_to_end(&mut buf);
                }
                Some(n) => {
                    let mut lines = 0;
                    let mut b = [0u8; 1];
                    while lines < n {
                        match lock.read(&mut b) {
                            Ok(1) => {
                                buf.push(b[0]);
                                if b[0] == b'\n' {
                                    lines += 1
                                }
                            }
                            _ => break,
                        }
                    }
                }
            }
            stdin_len = buf.len();
            if let Some(p) = v.get("stdin_file").and_then(|x| x.as_str()) {
                let _ = std::fs::write(p, &buf);
            }
        }
        if let Some(p) = v.get("record").and_then(|x| x.as_str()) {
            let env: std::collections::BTreeMap<String, String> = std::env::vars()
                .filter(|(k, _)| k == "LESS" || k == "LESSCHARSET" || k.starts_with("DELTA") || k == "PAGER" || k == "BAT_PAGER" || k == "LESSHISTFILE")
                .collect();
            let line = serde_json::json!({"argv": args, "env": env, "stdin_len": stdin_len, "pid": std::process::id()});
            if let Ok(mut f) = std::fs::OpenOptions::new().create(true).append(true).open(p) {
                let _ = writeln!(f, "{}", line);
            }
        }
        // copy a FIFO to stdout as the bytes arrive (the test decides when the tool "pauses")
        if let Some(p) = v.get("stdout_fifo").and_then(|x| x.as_str()) {
            if let Ok(mut f) = std::fs::File::open(p) {
                let so = std::io::stdout();
                let mut so = so.lock();
                let mut buf = [0u8; 4096];
                loop {
                    match f.read(&mut buf) {
                        Ok(0) | Err(_) => break,
                        Ok(n) => {
                            if so.write_all(&buf[..n]).is_err() || so.flush().is_err() {
                                break;
                            }
                        }
                    }
                }
            }
        }
        if let Some(p) = v.get("stdout_file").and_then(|x| x.as_str()) {
            if let Ok(b) = std::fs::read(p) {
                let so = std::io::stdout();
                let mut so = so.lock();
                let _ = so.write_all(&b);
                let _ = so.flush();
            }
        }
        if let Some(s) = v.get("stdout").and_then(|x| x.as_str()) {
            let so = std::io::stdout();
            let mut so = so.lock();
            let _ = so.write_all(s.as_bytes());
            let _ = so.flush();
        }
        if let Some(s) = v.get("stderr").and_then(|x| x.as_str()) {
            eprint!("{}", s);
        }
        if let Some(ms) = v.get("delay_ms").and_then(|x| x.as_u64()) {
            std::thread::sleep(std::time::Duration::from_millis(ms));
        }
        if let Some(p) = v.get("exit_stamp").and_then(|x| x.as_str()) {
            let _ = std::fs::write(p, format!("{:?}", std::time::SystemTime::now().duration_since(std::time::UNIX_EPOCH).unwrap().as_nanos()));
        }
        std::process::exit(v.get("status").and_then(|x| x.as_i64()).unwrap_or(0) as i32);
    }
    eprintln!("stubtool: invoked as {:?} without a role", args);
    std::process::exit(127);
}
