//! In-target side of the coverage-guided tier (DESIGN §2.2/§10): a libFuzzer process decodes its
//! byte input as a choice tape and runs the *same* `Prop::check` (generator + oracle) that proptest
//! drives.  A failing case does not crash the fuzzer: it is written to `$VFUZZ_OUT` (smallest tape
//! per signature) and the campaign goes on, so one shallow defect does not hide what lies behind
//! it.  The supervisor (fuzzdrv.rs) re-runs every recorded failure through `vcheck replay` before
//! anything is reported, so a verdict never rests on the instrumented build.
use std::collections::BTreeMap;
use std::fs;
use std::path::PathBuf;
use std::sync::Mutex;
use std::time::Instant;

use serde_json::json;

use crate::runner::{guarded, install_panic_hook, load_known, match_known, tape_to_json, verif_root, Ctx, Known, Prop, Tier, Verdict};
use crate::tape::{fnv, Tape};

struct State {
    prop: Box<dyn Prop>,
    ctx: Ctx,
    known: Vec<Known>,
    out: PathBuf,
    shard: usize,
    execs: u64,
    skipped: BTreeMap<String, u64>,
    /// signature -> length of the smallest failing tape written so far
    fails: BTreeMap<String, usize>,
    /// signature|traits -> (count, smallest tape)
    known_hits: BTreeMap<String, (u64, Vec<u32>)>,
    last_flush: Instant,
    max_tape: usize,
}

// libFuzzer calls the target from one thread; the mutex only guards the exit-time flush
unsafe impl Send for State {}
static STATE: Mutex<Option<State>> = Mutex::new(None);

fn init() -> State {
    let id = std::env::var("VFUZZ_PROP").unwrap_or_else(|_| "C03".to_string());
    let prop = crate::props::by_id(&id).unwrap_or_else(|| {
        eprintln!("VFUZZ_PROP={} is not a property", id);
        std::process::abort()
    });
    let shard: usize = std::env::var("VFUZZ_SHARD").ok().and_then(|s| s.parse().ok()).unwrap_or(0);
    let out = PathBuf::from(std::env::var("VFUZZ_OUT").unwrap_or_else(|_| verif_root().join("target/fuzz/out").to_string_lossy().into_owned()));
    let _ = fs::create_dir_all(&out);
    install_panic_hook();
    let _ = crate::exittrap::AT_EXIT.set(flush_now);
    let ids = prop.identities();
    let identity = ids[shard % ids.len()].clone();
    crate::runner::apply_identity(&identity);
    let scratch = verif_root().join("target/scratch");
    let _ = fs::create_dir_all(&scratch);
    let tier = Tier::parse(&std::env::var("VFUZZ_TIER").unwrap_or_else(|_| "thorough".to_string()));
    let mut ctx = Ctx::new(tier, 0, identity, scratch, 200 + shard);
    ctx.xcheck_every = 0;
    ctx.sample_budget = 1;
    let known = load_known(prop.id().trim_end_matches('R'));
    let max_tape = prop.tape_len(tier);
    State { prop, ctx, known, out, shard, execs: 0, skipped: BTreeMap::new(), fails: BTreeMap::new(), known_hits: BTreeMap::new(), last_flush: Instant::now(), max_tape }
}

fn flush(s: &mut State) {
    let nt: Vec<String> = s.ctx.nontrivial.iter().take(400_000).map(|x| format!("{:016x}", x)).collect();
    let kh: Vec<serde_json::Value> = s
        .known_hits
        .iter()
        .map(|(k, (n, t))| {
            let mut it = k.splitn(2, '|');
            let sig = it.next().unwrap_or("").to_string();
            let traits: Vec<String> = it.next().unwrap_or("").split(',').filter(|x| !x.is_empty()).map(|x| x.to_string()).collect();
            json!({"signature": sig, "traits": traits, "count": n, "tape": tape_to_json(t), "identity": s.ctx.identity})
        })
        .collect();
    let v = json!({
        "shard": s.shard, "decoder": s.prop.id(), "identity": s.ctx.identity, "evaluations": s.execs, "skipped": s.skipped,
        "nontrivial": nt, "nontrivial_total": s.ctx.nontrivial.len(), "classes": s.ctx.classes, "samples": s.ctx.samples, "known": kh, "notes": s.ctx.notes,
    });
    let p = s.out.join(format!("stats-{}.json", s.shard));
    let tmp = s.out.join(format!(".stats-{}.tmp", s.shard));
    if fs::write(&tmp, serde_json::to_string(&v).unwrap()).is_ok() {
        let _ = fs::rename(&tmp, &p);
    }
    s.last_flush = Instant::now();
}

/// One libFuzzer execution.  Returns true when the input was a useful case (libFuzzer's
/// `Corpus::Keep`), false when it was outside the property's domain.
pub fn fuzz_one(data: &[u8]) -> bool {
    let mut g = STATE.lock().unwrap_or_else(|e| e.into_inner());
    if g.is_none() {
        *g = Some(init());
    }
    let s = g.as_mut().unwrap();
    let mut tape = Tape::from_bytes(data);
    s.execs += 1;
    s.ctx.case_no += 1;
    let prop = &s.prop;
    let ctx = &mut s.ctx;
    let v = match guarded(|| prop.check(&mut tape, ctx)) {
        Ok(v) => v,
        Err(p) => Verdict::Fail(p.failure()),
    };
    let mut keep = true;
    match v {
        Verdict::Pass => {}
        Verdict::Skip(why) => {
            *s.skipped.entry(why.to_string()).or_insert(0) += 1;
            keep = false;
        }
        Verdict::Fail(f) => {
            let tv: Vec<u32> = tape.data().to_vec();
            if match_known(&s.known, &f.signature, &f.traits).is_some() {
                let key = format!("{}|{}", f.signature, f.traits.join(","));
                let e = s.known_hits.entry(key).or_insert((0, tv.clone()));
                e.0 += 1;
                if tv.len() < e.1.len() {
                    e.1 = tv;
                }
            } else {
                let better = match s.fails.get(&f.signature) {
                    None => true,
                    Some(n) => tv.len() < *n,
                };
                if better {
                    s.fails.insert(f.signature.clone(), tv.len());
                    let body = json!({"signature": f.signature, "traits": f.traits, "message": f.message, "detail": f.detail,
                        "tape": tape_to_json(&tv), "identity": s.ctx.identity, "decoder": s.prop.id(), "found_by": "libFuzzer"});
                    let p = s.out.join(format!("fail-{}-{:016x}.json", s.shard, fnv(f.signature.as_bytes())));
                    let _ = fs::write(p, serde_json::to_string(&body).unwrap());
                }
            }
        }
    }
    if s.execs % 256 == 0 && s.last_flush.elapsed().as_secs() >= 3 {
        flush(s);
    }
    let _ = s.max_tape;
    keep
}

/// Called by the target's `LLVMFuzzerInitialize`-time hook (first execution) and at intervals;
/// exposed so that a target can force a final flush.
pub fn flush_now() {
    if let Ok(mut g) = STATE.try_lock() {
        if let Some(s) = g.as_mut() {
            flush(s);
        }
    }
}
