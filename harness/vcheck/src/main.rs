use vcheck::{exec, gen, minimize, props, rows, runner, term};

use std::path::PathBuf;

use runner::{RunArgs, Tier, WorkerArgs};

fn arg_val(args: &[String], name: &str) -> Option<String> {
    args.iter().position(|a| a == name).and_then(|i| args.get(i + 1)).cloned()
}

fn main() {
    let args: Vec<String> = std::env::args().collect();
    if args.len() < 3 {
        eprintln!("usage: vcheck run|worker|replay <Cnn> ...");
        std::process::exit(2);
    }
    let prop = match props::by_id(&args[2]) {
        Some(p) => p,
        None => {
            eprintln!("unknown property {}", args[2]);
            std::process::exit(2);
        }
    };
    let tier = Tier::parse(&arg_val(&args, "--tier").or_else(|| std::env::var("VERIF_TIER").ok()).unwrap_or_else(|| "quick".into()));
    let seed: u64 = arg_val(&args, "--seed")
        .or_else(|| std::env::var("VERIF_SEED").ok())
        .and_then(|s| s.parse::<i64>().ok())
        .map(|s| s as u64)
        .unwrap_or(0);
    let code = match args[1].as_str() {
        "run" => {
            let jobs = arg_val(&args, "--jobs").and_then(|s| s.parse().ok()).unwrap_or(16);
            runner::supervisor_main(prop.as_ref(), &RunArgs { tier, seed, jobs })
        }
        "worker" => {
            let a = WorkerArgs {
                prop: args[2].clone(),
                tier,
                seed,
                shard: arg_val(&args, "--shard").unwrap().parse().unwrap(),
                nshards: arg_val(&args, "--nshards").unwrap().parse().unwrap(),
                out: PathBuf::from(arg_val(&args, "--out").unwrap()),
                inflight: PathBuf::from(arg_val(&args, "--inflight").unwrap()),
                first_batch: arg_val(&args, "--first-batch").and_then(|s| s.parse().ok()).unwrap_or(0),
            };
            runner::worker_main(prop.as_ref(), &a)
        }
        "min" => {
            // minimise a crash case (argv + input) in-process: vcheck min C03 <replay.json>
            runner::install_panic_hook();
            let v: serde_json::Value = serde_json::from_str(&std::fs::read_to_string(&args[3]).unwrap()).unwrap();
            let identity: Vec<String> = v["identity"].as_array().unwrap().iter().map(|x| x.as_str().unwrap().to_string()).collect();
            runner::apply_identity(&identity);
            let c = &v["detail"]["case"];
            let argv: Vec<String> = c["argv"].as_array().unwrap().iter().map(|x| x.as_str().unwrap().to_string()).collect();
            let cfg = minimize::cfg_from_argv(&argv, c["gitconfig"].as_str().map(|s| s.to_string()));
            let input = exec::unhex(c["input_hex"].as_str().unwrap_or(""));
            let scratch = runner::verif_root().join("target/scratch");
            let ctx = runner::Ctx::new(Tier::Quick, 0, identity.clone(), scratch, 97);
            let want = v["signature"].as_str().unwrap_or("").to_string();
            let mut fails = |cfg: &gen::config::Cfg, input: &[u8]| match exec::run_cfg(cfg, &ctx, input) {
                Err(f) => f.signature == want,
                Ok(_) => false,
            };
            println!("reproduces: {}", fails(&cfg, &input));
            let (c2, i2) = minimize::minimize(cfg, input, &mut fails, 4000);
            println!("identity: {:?}\nargv: {:?}\ninput: {:?}", identity, c2.base_args(), String::from_utf8_lossy(&i2));
            println!("input bytes: {:?}", i2);
            0
        }
        "dbg-probe" => {
            let v: serde_json::Value = serde_json::from_str(&std::fs::read_to_string(&args[3]).unwrap()).unwrap();
            props::c11::debug_probe(&v["case"]);
            0
        }
        "dbg-rows" => {
            let v: serde_json::Value = serde_json::from_str(&std::fs::read_to_string(&args[3]).unwrap()).unwrap();
            let c = &v["detail"]["case"];
            let argv: Vec<String> = c["argv"].as_array().unwrap().iter().map(|x| x.as_str().unwrap().to_string()).collect();
            let cfg = minimize::cfg_from_argv(&argv, c["gitconfig"].as_str().map(|s| s.to_string()));
            let input = exec::unhex(c["input_hex"].as_str().unwrap_or(""));
            let identity: Vec<String> = v["identity"].as_array().map(|a| a.iter().map(|x| x.as_str().unwrap().to_string()).collect()).unwrap_or_else(|| vec!["git".into(), "diff".into()]);
            runner::apply_identity(&identity);
            let ctx = runner::Ctx::new(Tier::Quick, 0, vec![], runner::verif_root().join("target/scratch"), 96);
            let out = exec::run_cfg(&cfg, &ctx, &input).unwrap();
            let sc = term::decode(&out);
            for (i, cr) in rows::classify_all(&sc).iter().enumerate() {
                println!("{:3} {:?} {:?} `{}`", i, cr.kind, cr.tags.tags, cr.row.text());
            }
            0
        }
        "dbg-sbs" => {
            // print how the side-by-side rows of a replay's saved output are split into panels
            let v: serde_json::Value = serde_json::from_str(&std::fs::read_to_string(&args[3]).unwrap()).unwrap();
            let c = &v["detail"]["case"];
            let argv: Vec<String> = c["argv"].as_array().unwrap().iter().map(|x| x.as_str().unwrap().to_string()).collect();
            let cfg = minimize::cfg_from_argv(&argv, c["gitconfig"].as_str().map(|s| s.to_string()));
            let input = exec::unhex(c["input_hex"].as_str().unwrap_or(""));
            dut::verif_api::set_calling_process(&["git".to_string(), "diff".to_string()]);
            let ctx = runner::Ctx::new(Tier::Quick, 0, vec![], runner::verif_root().join("target/scratch"), 96);
            let out = exec::run_cfg(&cfg, &ctx, &input).unwrap();
            let sc = term::decode(&out);
            for (i, r) in sc.rows.iter().enumerate() {
                match rows::split_sbs(r) {
                    Some((l, rr)) => println!("{:3} L{:?}@{} `{}` | R{:?}@{} `{}`", i, l.numbers, l.content_col, l.cells.iter().map(|c| format!("{}", c.0)).collect::<String>(), rr.numbers, rr.start_col, rr.cells.iter().map(|c| c.0.clone()).collect::<String>()),
                    None => println!("{:3} -- `{}`", i, r.text()),
                }
            }
            0
        }
        "describe" => runner::describe_main(prop.as_ref(), &PathBuf::from(&args[3])),
        "replay" => {
            let quiet = args.iter().any(|a| a == "--quiet");
            // a replay file found by a raw decoder of the coverage-guided tier names it
            let dec = std::fs::read_to_string(&args[3]).ok().and_then(|s| serde_json::from_str::<serde_json::Value>(&s).ok()).and_then(|v| v["decoder"].as_str().map(|s| s.to_string()));
            let p2 = dec.and_then(|d| props::by_id(&d)).unwrap_or(prop);
            runner::replay_main(p2.as_ref(), &PathBuf::from(&args[3]), quiet)
        }
        "shrink" => runner::shrink_main(prop.as_ref(), &PathBuf::from(&args[3])),
        _ => 2,
    };
    std::process::exit(code);
}
