//! An independent terminal model (DESIGN §2.4).  Shares no code with delta's src/ansi/*, which
//! is under test.  Consumes bytes, produces rows of styled cells plus per-row events.

use unicode_segmentation::UnicodeSegmentation;
use unicode_width::UnicodeWidthStr;

#[derive(Clone, Copy, PartialEq, Eq, Hash, Debug, Default, PartialOrd, Ord)]
pub enum Color {
    #[default]
    Default,
    Idx(u8),
    Rgb(u8, u8, u8),
}

pub const BOLD: u16 = 1;
pub const DIM: u16 = 2;
pub const ITALIC: u16 = 4;
pub const UNDERLINE: u16 = 8;
pub const BLINK: u16 = 16;
pub const REVERSE: u16 = 32;
pub const HIDDEN: u16 = 64;
pub const STRIKE: u16 = 128;

#[derive(Clone, Copy, PartialEq, Eq, Hash, Debug, Default)]
pub struct Sgr {
    pub fg: Color,
    pub bg: Color,
    pub attrs: u16,
}

impl Sgr {
    pub fn is_default(&self) -> bool {
        *self == Sgr::default()
    }
}

#[derive(Clone, Debug, PartialEq, Eq)]
pub struct Cell {
    pub text: String,
    pub width: usize,
    pub st: Sgr,
    pub link: Option<u32>,
}

#[derive(Clone, Debug, PartialEq, Eq)]
pub struct Erase {
    pub at_cell: usize,
    pub mode: u8, // 0 = to end of line, 1 = to beginning, 2 = whole line
    pub st: Sgr,
}

#[derive(Clone, Debug, Default)]
pub struct Row {
    pub cells: Vec<Cell>,
    pub erases: Vec<Erase>,
    /// state when the newline (or end of input) was reached
    pub end_sgr: Sgr,
    pub end_link_open: bool,
    pub end_in_sequence: bool,
    /// CSI sequences other than SGR and EL (cursor movement, erase display, ...), and other
    /// control functions the model does not interpret
    pub other_controls: Vec<String>,
    /// number of SGR sequences seen on this row (rendition changes)
    pub sgr_count: usize,
    /// terminated by '\n' (false only for a final unterminated row)
    pub terminated: bool,
    pub osc8_opens: usize,
    pub osc8_closes: usize,
}

impl Row {
    pub fn text(&self) -> String {
        let mut s = String::new();
        for c in &self.cells {
            s.push_str(&c.text);
        }
        s
    }
    pub fn width(&self) -> usize {
        self.cells.iter().map(|c| c.width).sum()
    }
    /// text with trailing spaces removed
    pub fn text_trimmed(&self) -> String {
        let t = self.text();
        t.trim_end_matches(' ').to_string()
    }
    pub fn is_blank(&self) -> bool {
        self.cells.iter().all(|c| c.text == " ")
    }
}

#[derive(Clone, Debug, Default)]
pub struct Screen {
    pub rows: Vec<Row>,
    pub links: Vec<String>,
}

impl Screen {
    pub fn link_of(&self, c: &Cell) -> Option<&str> {
        c.link.map(|i| self.links[i as usize].as_str())
    }
}

#[derive(PartialEq, Eq, Clone, Copy, Debug)]
enum St {
    Ground,
    Esc,
    EscInter,
    Csi,
    Osc,
    OscEsc,
    Str, // DCS / SOS / PM / APC: skipped until ST
    StrEsc,
}

struct Dec {
    st: St,
    sgr: Sgr,
    link: Option<u32>,
    links: Vec<String>,
    rows: Vec<Row>,
    cur: Row,
    text: String, // pending ground text (same style/link)
    buf: Vec<u8>, // sequence payload
}

impl Dec {
    fn flush_text(&mut self) {
        if self.text.is_empty() {
            return;
        }
        let t = std::mem::take(&mut self.text);
        for g in t.graphemes(true) {
            let w = UnicodeWidthStr::width(g);
            self.cur.cells.push(Cell {
                text: g.to_string(),
                width: w,
                st: self.sgr,
                link: self.link,
            });
        }
    }

    fn newline(&mut self) {
        self.flush_text();
        let mut row = std::mem::take(&mut self.cur);
        row.end_sgr = self.sgr;
        row.end_link_open = self.link.is_some();
        row.end_in_sequence = self.st != St::Ground;
        row.terminated = true;
        self.rows.push(row);
    }

    fn csi(&mut self) {
        self.flush_text();
        let payload = std::mem::take(&mut self.buf);
        let (&fin, body) = match payload.split_last() {
            Some(x) => x,
            None => return,
        };
        let has_inter_or_private = body
            .iter()
            .any(|b| (0x20..=0x2f).contains(b) || (0x3c..=0x3f).contains(b));
        let body_s = String::from_utf8_lossy(body).into_owned();
        if fin == b'm' && !has_inter_or_private {
            self.cur.sgr_count += 1;
            self.apply_sgr(&body_s);
        } else if fin == b'K' && !has_inter_or_private {
            let mode = body_s.parse::<u8>().unwrap_or(0);
            self.cur.erases.push(Erase {
                at_cell: self.cur.cells.len(),
                mode,
                st: self.sgr,
            });
        } else {
            self.cur
                .other_controls
                .push(format!("CSI {}{}", body_s, fin as char));
        }
    }

    fn apply_sgr(&mut self, body: &str) {
        // parameters separated by ';', sub-parameters by ':'
        let params: Vec<Vec<Option<u32>>> = if body.is_empty() {
            vec![vec![Some(0)]]
        } else {
            body.split(';')
                .map(|p| p.split(':').map(|x| x.parse::<u32>().ok()).collect())
                .collect()
        };
        let mut i = 0;
        while i < params.len() {
            let p = &params[i];
            let code = p[0].unwrap_or(0);
            match code {
                0 => self.sgr = Sgr::default(),
                1 => self.sgr.attrs |= BOLD,
                2 => self.sgr.attrs |= DIM,
                3 => self.sgr.attrs |= ITALIC,
                4 => {
                    if p.len() > 1 && p[1] == Some(0) {
                        self.sgr.attrs &= !UNDERLINE
                    } else {
                        self.sgr.attrs |= UNDERLINE
                    }
                }
                5 | 6 => self.sgr.attrs |= BLINK,
                7 => self.sgr.attrs |= REVERSE,
                8 => self.sgr.attrs |= HIDDEN,
                9 => self.sgr.attrs |= STRIKE,
                21 => self.sgr.attrs |= UNDERLINE,
                22 => self.sgr.attrs &= !(BOLD | DIM),
                23 => self.sgr.attrs &= !ITALIC,
                24 => self.sgr.attrs &= !UNDERLINE,
                25 => self.sgr.attrs &= !BLINK,
                27 => self.sgr.attrs &= !REVERSE,
                28 => self.sgr.attrs &= !HIDDEN,
                29 => self.sgr.attrs &= !STRIKE,
                30..=37 => self.sgr.fg = Color::Idx((code - 30) as u8),
                39 => self.sgr.fg = Color::Default,
                40..=47 => self.sgr.bg = Color::Idx((code - 40) as u8),
                49 => self.sgr.bg = Color::Default,
                90..=97 => self.sgr.fg = Color::Idx((code - 90 + 8) as u8),
                100..=107 => self.sgr.bg = Color::Idx((code - 100 + 8) as u8),
                38 | 48 => {
                    let mut col = None;
                    if p.len() > 1 {
                        // colon form: 38:5:n  or 38:2:[cs]:r:g:b
                        match p[1] {
                            Some(5) if p.len() >= 3 => {
                                col = Some(Color::Idx(p[2].unwrap_or(0).min(255) as u8))
                            }
                            Some(2) if p.len() >= 5 => {
                                let k = p.len();
                                col = Some(Color::Rgb(
                                    p[k - 3].unwrap_or(0).min(255) as u8,
                                    p[k - 2].unwrap_or(0).min(255) as u8,
                                    p[k - 1].unwrap_or(0).min(255) as u8,
                                ))
                            }
                            _ => {}
                        }
                    } else if i + 1 < params.len() {
                        let kind = params[i + 1][0];
                        if kind == Some(5) && i + 2 < params.len() {
                            col = Some(Color::Idx(params[i + 2][0].unwrap_or(0).min(255) as u8));
                            i += 2;
                        } else if kind == Some(2) && i + 4 < params.len() {
                            col = Some(Color::Rgb(
                                params[i + 2][0].unwrap_or(0).min(255) as u8,
                                params[i + 3][0].unwrap_or(0).min(255) as u8,
                                params[i + 4][0].unwrap_or(0).min(255) as u8,
                            ));
                            i += 4;
                        } else {
                            // malformed: consume the rest
                            i = params.len();
                        }
                    }
                    if let Some(c) = col {
                        if code == 38 {
                            self.sgr.fg = c
                        } else {
                            self.sgr.bg = c
                        }
                    }
                }
                _ => {}
            }
            i += 1;
        }
    }

    fn osc(&mut self) {
        self.flush_text();
        let payload = std::mem::take(&mut self.buf);
        let s = String::from_utf8_lossy(&payload).into_owned();
        if let Some(rest) = s.strip_prefix("8;") {
            // 8;params;URI
            let uri = match rest.find(';') {
                Some(k) => &rest[k + 1..],
                None => "",
            };
            if uri.is_empty() {
                self.link = None;
                self.cur.osc8_closes += 1;
            } else {
                self.links.push(uri.to_string());
                self.link = Some((self.links.len() - 1) as u32);
                self.cur.osc8_opens += 1;
            }
        } else {
            self.cur.other_controls.push(format!("OSC {}", s));
        }
    }

    fn feed(&mut self, ch: char) {
        // sequences are made of ASCII; any other character maps to a byte value that no rule treats specially
        let b: u8 = if (ch as u32) < 0x80 { ch as u8 } else { 0x80 };
        match self.st {
            St::Ground => match b {
                b'\n' => self.newline(),
                0x1b => {
                    self.flush_text();
                    self.st = St::Esc
                }
                _ => {
                    self.text.push(ch);
                }
            },
            St::Esc => match b {
                b'[' => {
                    self.buf.clear();
                    self.st = St::Csi
                }
                b']' => {
                    self.buf.clear();
                    self.st = St::Osc
                }
                b'P' | b'X' | b'^' | b'_' => {
                    self.buf.clear();
                    self.st = St::Str
                }
                0x20..=0x2f => self.st = St::EscInter,
                b'\n' => {
                    // ESC cut by a newline: report as "in sequence" at the newline
                    self.newline();
                    self.st = St::Ground;
                }
                0x1b => {}
                _ => {
                    self.cur.other_controls.push(format!("ESC {}", ch));
                    self.st = St::Ground
                }
            },
            St::EscInter => match b {
                0x20..=0x2f => {}
                b'\n' => {
                    self.newline();
                    self.st = St::Ground
                }
                _ => {
                    self.cur.other_controls.push("ESC-inter".to_string());
                    self.st = St::Ground
                }
            },
            St::Csi => match b {
                0x40..=0x7e => {
                    self.buf.push(b);
                    self.st = St::Ground;
                    self.csi();
                }
                0x80 => {
                    // not part of any control sequence: the sequence is aborted, the character is text
                    self.cur.other_controls.push("CSI-aborted".to_string());
                    self.st = St::Ground;
                    self.text.push(ch);
                }
                b'\n' => {
                    self.newline();
                    self.st = St::Ground
                }
                0x1b => {
                    // aborted sequence
                    self.cur.other_controls.push("CSI-aborted".to_string());
                    self.st = St::Esc
                }
                _ => self.buf.push(b),
            },
            St::Osc => match b {
                0x80 => {
                    let mut tmp = [0u8; 4];
                    self.buf.extend_from_slice(ch.encode_utf8(&mut tmp).as_bytes());
                }
                0x07 => {
                    self.st = St::Ground;
                    self.osc()
                }
                0x1b => self.st = St::OscEsc,
                b'\n' => {
                    self.newline();
                    self.st = St::Ground
                }
                _ => self.buf.push(b),
            },
            St::OscEsc => match b {
                b'\\' => {
                    self.st = St::Ground;
                    self.osc()
                }
                b'\n' => {
                    self.newline();
                    self.st = St::Ground
                }
                _ => {
                    // ESC not followed by '\': the OSC is aborted, ESC starts a new sequence
                    self.cur.other_controls.push("OSC-aborted".to_string());
                    self.st = St::Esc;
                    self.feed(ch);
                }
            },
            St::Str => match b {
                0x1b => self.st = St::StrEsc,
                b'\n' => {
                    self.newline();
                    self.st = St::Ground
                }
                _ => {}
            },
            St::StrEsc => match b {
                b'\\' => self.st = St::Ground,
                b'\n' => {
                    self.newline();
                    self.st = St::Ground
                }
                _ => self.st = St::Str,
            },
        }
    }
}

/// Decode a byte stream.  `carry_state == false` resets nothing between rows: state carries
/// over newlines exactly as in a real terminal (that is what C09 inspects).
pub fn decode(bytes: &[u8]) -> Screen {
    let s = String::from_utf8_lossy(bytes);
    let mut d = Dec {
        st: St::Ground,
        sgr: Sgr::default(),
        link: None,
        links: Vec::new(),
        rows: Vec::new(),
        cur: Row::default(),
        text: String::new(),
        buf: Vec::new(),
    };
    for ch in s.chars() {
        d.feed(ch);
    }
    // final unterminated row
    d.flush_text();
    if !d.cur.cells.is_empty()
        || !d.cur.erases.is_empty()
        || d.cur.sgr_count > 0
        || d.st != St::Ground
        || !d.cur.other_controls.is_empty()
    {
        let mut row = std::mem::take(&mut d.cur);
        row.end_sgr = d.sgr;
        row.end_link_open = d.link.is_some();
        row.end_in_sequence = d.st != St::Ground;
        row.terminated = false;
        d.rows.push(row);
    }
    Screen {
        rows: d.rows,
        links: d.links,
    }
}

/// Remove every complete escape/control sequence, returning visible text only (lossy UTF-8).
pub fn visible_text(bytes: &[u8]) -> String {
    let sc = decode(bytes);
    let mut out = String::new();
    for (i, r) in sc.rows.iter().enumerate() {
        out.push_str(&r.text());
        if r.terminated || i + 1 < sc.rows.len() {
            out.push('\n');
        }
    }
    out
}

/// Remove complete OSC 8 sequences only (both terminators), byte-exact otherwise.
pub fn strip_osc8(bytes: &[u8]) -> Vec<u8> {
    let mut out = Vec::with_capacity(bytes.len());
    let mut i = 0;
    while i < bytes.len() {
        if bytes[i] == 0x1b && bytes[i..].starts_with(b"\x1b]8;") {
            // find terminator
            let mut j = i + 4;
            let mut end = None;
            while j < bytes.len() {
                if bytes[j] == 0x07 {
                    end = Some(j + 1);
                    break;
                }
                if bytes[j] == 0x1b && j + 1 < bytes.len() && bytes[j + 1] == b'\\' {
                    end = Some(j + 2);
                    break;
                }
                if bytes[j] == b'\n' {
                    break;
                }
                j += 1;
            }
            if let Some(e) = end {
                i = e;
                continue;
            }
        }
        out.push(bytes[i]);
        i += 1;
    }
    out
}

// ---------------------------------------------------------------------------------------------
// An independent emitter, used to validate the model by round trip (paint random styled text,
// decode, compare) and by generators that need coloured input.

pub fn sgr_params(st: &Sgr, truecolor_form_colon: bool) -> String {
    let mut p: Vec<String> = Vec::new();
    for (bit, code) in [
        (BOLD, 1),
        (DIM, 2),
        (ITALIC, 3),
        (UNDERLINE, 4),
        (BLINK, 5),
        (REVERSE, 7),
        (HIDDEN, 8),
        (STRIKE, 9),
    ] {
        if st.attrs & bit != 0 {
            p.push(code.to_string());
        }
    }
    let col = |c: Color, base: u32, p: &mut Vec<String>| match c {
        Color::Default => {}
        Color::Idx(n) if n < 8 => p.push((base + n as u32).to_string()),
        Color::Idx(n) if n < 16 => p.push((base + 60 + (n as u32 - 8)).to_string()),
        Color::Idx(n) => {
            if truecolor_form_colon {
                p.push(format!("{}:5:{}", base + 8, n))
            } else {
                p.push(format!("{};5;{}", base + 8, n))
            }
        }
        Color::Rgb(r, g, b) => {
            if truecolor_form_colon {
                p.push(format!("{}:2::{}:{}:{}", base + 8, r, g, b))
            } else {
                p.push(format!("{};2;{};{};{}", base + 8, r, g, b))
            }
        }
    };
    col(st.fg, 30, &mut p);
    col(st.bg, 40, &mut p);
    p.join(";")
}

pub fn paint(text: &str, st: &Sgr) -> String {
    if st.is_default() {
        text.to_string()
    } else {
        format!("\x1b[{}m{}\x1b[0m", sgr_params(st, false), text)
    }
}

#[cfg(test)]
mod tests {
    use super::*;

    #[test]
    fn basic() {
        let sc = decode(b"\x1b[48;5;124mold\x1b[48;5;52m line\x1b[0m\x1b[48;5;52m\x1b[0K\x1b[0m\nx\n");
        assert_eq!(sc.rows.len(), 2);
        assert_eq!(sc.rows[0].text(), "old line");
        assert_eq!(sc.rows[0].cells[0].st.bg, Color::Idx(124));
        assert_eq!(sc.rows[0].cells[4].st.bg, Color::Idx(52));
        assert_eq!(sc.rows[0].erases.len(), 1);
        assert_eq!(sc.rows[0].erases[0].st.bg, Color::Idx(52));
        assert!(sc.rows[0].end_sgr.is_default());
    }

    #[test]
    fn osc8() {
        let sc = decode(b"\x1b]8;;file:///a\x1b\\txt\x1b]8;;\x1b\\ y\n");
        assert_eq!(sc.rows[0].text(), "txt y");
        assert_eq!(sc.link_of(&sc.rows[0].cells[0]), Some("file:///a"));
        assert_eq!(sc.rows[0].cells[4].link, None);
        assert!(!sc.rows[0].end_link_open);
        assert_eq!(
            strip_osc8(b"\x1b]8;;file:///a\x1b\\txt\x1b]8;;\x1b\\ y\n"),
            b"txt y\n".to_vec()
        );
    }

    #[test]
    fn roundtrip_colors() {
        for st in [
            Sgr { fg: Color::Idx(3), bg: Color::Idx(200), attrs: BOLD | STRIKE },
            Sgr { fg: Color::Rgb(1, 2, 3), bg: Color::Idx(12), attrs: REVERSE },
            Sgr { fg: Color::Default, bg: Color::Rgb(255, 0, 9), attrs: 0 },
        ] {
            let s = paint("héllo 世界", &st);
            let sc = decode(s.as_bytes());
            assert_eq!(sc.rows[0].text(), "héllo 世界");
            for c in &sc.rows[0].cells {
                assert_eq!(c.st, st);
            }
            assert_eq!(sc.rows[0].width(), 10);
        }
    }
}

#[cfg(test)]
mod tests2 {
    use super::*;
    #[test]
    fn osc8_then_number() {
        let sc = decode(b"\x1b[38;5;28m\x1b]8;;file:///tmp/a\x1b\\ 460\x1b]8;;\x1b\\\x1b[34m|\x1b[0m\n");
        assert_eq!(sc.rows[0].text(), " 460|");
    }
}
