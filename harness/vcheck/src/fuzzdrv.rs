//! Supervisor side of the coverage-guided tier: seeds a corpus with proptest-generated tapes (and
//! golden inputs for the raw decoders), runs N libFuzzer processes of `harness/fuzz` (target
//! `fuzz_prop`) for a wall-clock budget, then confirms every recorded failure and every libFuzzer
//! artifact (crash / timeout / oom) by replaying it through the ordinary release build of
//! `vcheck` before it is counted.  Budget exhaustion means "explored this much", never a verdict.
use std::collections::BTreeMap;
use std::fs;
use std::path::{Path, PathBuf};
use std::process::{Command, Stdio};
use std::time::{Duration, Instant};

use proptest::prelude::*;
use proptest::strategy::ValueTree;
use proptest::test_runner::{Config as PtConfig, RngSeed, TestRunner};
use serde_json::{json, Value};

use crate::runner::{tape_from_json, tape_to_json, Prop, RunArgs, Sup, Tier};
use crate::tape::fnv;

pub fn fuzz_binary(root: &Path) -> PathBuf {
    root.join("harness/target/x86_64-unknown-linux-gnu/release/fuzz_prop")
}

fn tape_bytes(t: &[u32]) -> Vec<u8> {
    t.iter().flat_map(|v| v.to_le_bytes()).collect()
}

fn bytes_tape(b: &[u8]) -> Vec<u32> {
    crate::tape::Tape::from_bytes(b).data().to_vec()
}

/// Seconds of fuzzing for this run: $VERIF_FUZZ_SECS, else 0 in the quick tier and `default`
/// in the thorough tier.
pub fn budget_secs(tier: Tier, default: u64) -> u64 {
    if let Some(s) = std::env::var("VERIF_FUZZ_SECS").ok().and_then(|s| s.parse::<u64>().ok()) {
        return s;
    }
    match tier {
        Tier::Quick => 0,
        Tier::Thorough => default,
    }
}

fn write_seeds(decoder: &dyn Prop, tier: Tier, seed: u64, dir: &Path, root: &Path) -> usize {
    let _ = fs::create_dir_all(dir);
    let mut n = 0;
    // (a) proptest-generated tapes: the same distribution the random tier uses
    let mut runner = TestRunner::new(PtConfig { rng_seed: RngSeed::Fixed(fnv(&seed.to_le_bytes()) ^ 0xF022), failure_persistence: None, ..PtConfig::default() });
    let len = decoder.tape_len(tier);
    let strat = proptest::collection::vec(any::<u32>(), (len / 8).max(8)..len.max(len / 8 + 9));
    for i in 0..192 {
        if let Ok(t) = strat.new_tree(&mut runner) {
            let v = t.current();
            let _ = fs::write(dir.join(format!("seed-{:03}", i)), tape_bytes(&v));
            n += 1;
        }
    }
    // (b) saved counterexamples / known-finding tapes of the property
    for sub in ["replays", "corpus"] {
        let d = root.join(sub).join(decoder.id().trim_end_matches('R'));
        if let Ok(rd) = fs::read_dir(&d) {
            for e in rd.flatten() {
                let p = e.path();
                if p.extension().map(|x| x == "json").unwrap_or(false) {
                    if let Ok(v) = fs::read_to_string(&p).map_err(|_| ()).and_then(|s| serde_json::from_str::<Value>(&s).map_err(|_| ())) {
                        let dec = v["decoder"].as_str().unwrap_or(decoder.id().trim_end_matches('R'));
                        let t = tape_from_json(&v["tape"]);
                        if !t.is_empty() && dec == decoder.id() {
                            let _ = fs::write(dir.join(format!("replay-{:016x}", fnv(&tape_bytes(&t)))), tape_bytes(&t));
                            n += 1;
                        }
                    }
                }
            }
        }
    }
    // (c) decoder-specific golden seeds
    for (i, b) in decoder.fuzz_seeds(seed).into_iter().enumerate() {
        let _ = fs::write(dir.join(format!("golden-{:03}", i)), b);
        n += 1;
    }
    n
}

struct Proc {
    child: std::process::Child,
    shard: usize,
    decoder: String,
    started: Instant,
}

pub fn replay_file(decoder: &str, file: &Path, timeout: Duration) -> (Option<i32>, String, bool) {
    let exe = std::env::current_exe().unwrap();
    let mut cmd = Command::new(exe);
    cmd.args(["replay", decoder, file.to_str().unwrap(), "--quiet"]).stdin(Stdio::null()).stdout(Stdio::piped()).stderr(Stdio::null());
    unsafe {
        std::os::unix::process::CommandExt::pre_exec(&mut cmd, || {
            let lim = libc::rlimit { rlim_cur: 6 << 30, rlim_max: 6 << 30 };
            libc::setrlimit(libc::RLIMIT_AS, &lim);
            Ok(())
        });
    }
    let mut child = match cmd.spawn() {
        Ok(c) => c,
        Err(_) => return (None, String::new(), false),
    };
    let t0 = Instant::now();
    let mut so = child.stdout.take().unwrap();
    let rd = std::thread::spawn(move || {
        let mut b = Vec::new();
        let _ = std::io::Read::read_to_end(&mut so, &mut b);
        b
    });
    loop {
        match child.try_wait() {
            Ok(Some(st)) => {
                let out = rd.join().unwrap_or_default();
                return (st.code(), String::from_utf8_lossy(&out).into_owned(), false);
            }
            Ok(None) => {
                if t0.elapsed() > timeout {
                    let _ = child.kill();
                    let _ = child.wait();
                    let _ = rd.join();
                    return (None, String::new(), true);
                }
                std::thread::sleep(Duration::from_millis(10));
            }
            Err(_) => return (None, String::new(), false),
        }
    }
}

/// shrink a failing tape (keeping the signature) with `vcheck shrink`; returns the smaller tape
fn shrink_file(decoder: &str, file: &Path) -> Option<Vec<u32>> {
    let exe = std::env::current_exe().unwrap();
    let o = Command::new(exe).args(["shrink", decoder, file.to_str().unwrap()]).stdin(Stdio::null()).stderr(Stdio::null()).output().ok()?;
    if !o.status.success() {
        return None;
    }
    let v: Value = serde_json::from_slice(&o.stdout).ok()?;
    let t = tape_from_json(&v["tape"]);
    if t.is_empty() && v["tape"].as_array().map(|a| !a.is_empty()).unwrap_or(true) {
        return None;
    }
    Some(t)
}

pub fn fuzz_phase(prop: &dyn Prop, a: &RunArgs, sup: &mut Sup) {
    let secs = budget_secs(a.tier, prop.fuzz_default_secs());
    let decoders = prop.fuzz_decoders();
    if secs == 0 || decoders.is_empty() {
        return;
    }
    let root = sup.root.clone();
    let bin = fuzz_binary(&root);
    if !bin.exists() {
        sup.extra.insert("fuzz".into(), json!({"ran": false, "why": "fuzz target not built (./check builds it in the thorough tier; needs cargo +nightly fuzz)"}));
        return;
    }
    let t0 = Instant::now();
    let base = root.join("target/fuzz").join(prop.id());
    let _ = fs::remove_dir_all(&base);
    let out = base.join("out");
    let art = base.join("art");
    let logs = base.join("logs");
    for d in [&out, &art, &logs] {
        let _ = fs::create_dir_all(d);
    }
    let nprocs = a.jobs.min(16).max(1);
    // decoders share the processes round-robin, the first decoder gets the remainder
    let mut seeds_n = BTreeMap::new();
    for d in &decoders {
        let dec = crate::props::by_id(d).expect("decoder");
        let n = write_seeds(dec.as_ref(), a.tier, a.seed, &base.join(format!("seeds-{}", d)), &root);
        let _ = fs::create_dir_all(base.join(format!("corpus-{}", d)));
        seeds_n.insert(d.to_string(), n);
    }
    let spawn = |shard: usize, left: u64| -> Option<Proc> {
        let d = &decoders[shard % decoders.len()];
        let dec = crate::props::by_id(d).expect("decoder");
        let max_len = dec.tape_len(a.tier) * 4;
        let log = fs::OpenOptions::new().create(true).append(true).open(logs.join(format!("fuzz-{}.log", shard))).ok()?;
        let mut cmd = Command::new(&bin);
        cmd.arg(base.join(format!("corpus-{}", d)))
            .arg(base.join(format!("seeds-{}", d)))
            .arg(format!("-max_total_time={}", left))
            .arg(format!("-seed={}", ((fnv(&a.seed.to_le_bytes()) ^ (shard as u64 * 0x9E37)) % 0xFFFF_FFFE) + 1))
            .arg(format!("-max_len={}", max_len))
            .arg("-len_control=0")
            .arg("-timeout=60")
            .arg("-rss_limit_mb=6000")
            .arg("-reload=10")
            .arg("-print_final_stats=1")
            .arg(format!("-artifact_prefix={}/s{}-", art.display(), shard))
            .env("VFUZZ_PROP", d)
            .env("VFUZZ_SHARD", shard.to_string())
            .env("VFUZZ_OUT", &out)
            .env("VFUZZ_TIER", a.tier.name())
            .env("VERIF_ROOT", &root)
            .stdin(Stdio::null())
            .stdout(Stdio::null())
            .stderr(Stdio::from(log));
        let dict = root.join("harness/fuzz/dict").join(format!("{}.dict", d));
        if dict.exists() {
            cmd.arg(format!("-dict={}", dict.display()));
        }
        cmd.spawn().ok().map(|child| Proc { child, shard, decoder: d.to_string(), started: Instant::now() })
    };
    let mut procs: Vec<Proc> = (0..nprocs).filter_map(|s| spawn(s, secs)).collect();
    let spawned_ok = procs.len();
    let mut early_deaths: BTreeMap<String, u64> = BTreeMap::new();
    let deadline = t0 + Duration::from_secs(secs + 90);
    let mut respawns = 0;
    while !procs.is_empty() {
        std::thread::sleep(Duration::from_millis(200));
        let mut i = 0;
        while i < procs.len() {
            let done = procs[i].child.try_wait().ok().flatten();
            if let Some(st) = done {
                let p = procs.swap_remove(i);
                let left = secs.saturating_sub(t0.elapsed().as_secs());
                if !st.success() {
                    *early_deaths.entry(format!("{}:{:?}", p.decoder, st.code())).or_insert(0) += 1;
                }
                // a process that stopped early (artifact written) is restarted while time remains
                if left > 15 && respawns < 64 && p.started.elapsed().as_secs() + 5 < secs {
                    respawns += 1;
                    if let Some(np) = spawn(p.shard, left) {
                        procs.push(np);
                    }
                }
                continue;
            }
            if Instant::now() > deadline {
                let _ = procs[i].child.kill();
                let _ = procs[i].child.wait();
                procs.swap_remove(i);
                continue;
            }
            i += 1;
        }
    }
    let fuzz_wall = t0.elapsed().as_secs_f64();

    // ---- collect statistics
    let mut execs = 0u64;
    let mut per_decoder: BTreeMap<String, u64> = BTreeMap::new();
    if let Ok(rd) = fs::read_dir(&out) {
        for e in rd.flatten() {
            let p = e.path();
            let name = p.file_name().unwrap().to_string_lossy().to_string();
            if !name.starts_with("stats-") {
                continue;
            }
            if let Ok(v) = fs::read_to_string(&p).map_err(|_| ()).and_then(|s| serde_json::from_str::<Value>(&s).map_err(|_| ())) {
                let n = v["evaluations"].as_u64().unwrap_or(0);
                execs += n;
                *per_decoder.entry(v["decoder"].as_str().unwrap_or("").to_string()).or_insert(0) += n;
                sup.evaluations += n;
                if let Some(a) = v["nontrivial"].as_array() {
                    for x in a {
                        sup.nontrivial.insert(x.as_str().unwrap_or("").to_string());
                    }
                }
                if let Some(m) = v["classes"].as_object() {
                    for (k, n) in m {
                        *sup.classes.entry(k.clone()).or_insert(0) += n.as_u64().unwrap_or(0);
                    }
                }
                if let Some(m) = v["skipped"].as_object() {
                    for (k, n) in m {
                        *sup.skipped.entry(k.clone()).or_insert(0) += n.as_u64().unwrap_or(0);
                    }
                }
                if let Some(a) = v["known"].as_array() {
                    for k in a {
                        let traits: Vec<String> = k["traits"].as_array().map(|a| a.iter().filter_map(|x| x.as_str().map(|s| s.to_string())).collect()).unwrap_or_default();
                        let sig = format!("{}|{}", k["signature"].as_str().unwrap_or(""), traits.join(","));
                        let e = sup.known_hits.entry(sig).or_insert((0, json!({"tape": k["tape"].clone(), "identity": k["identity"].clone(), "decoder": v["decoder"].clone()})));
                        e.0 += k["count"].as_u64().unwrap_or(0);
                    }
                }
                if let Some(a) = v["samples"].as_array() {
                    for s in a {
                        if sup.samples.len() < 5 {
                            sup.samples.push(s.clone());
                        }
                    }
                }
            }
        }
    }
    // libFuzzer's own view: coverage counters from the logs
    let mut cov_max = 0u64;
    let mut ft_max = 0u64;
    if let Ok(rd) = fs::read_dir(&logs) {
        for e in rd.flatten() {
            if let Ok(s) = fs::read_to_string(e.path()) {
                for l in s.lines().rev().take(400) {
                    if let Some(i) = l.find(" cov: ") {
                        let rest = &l[i + 6..];
                        let c: u64 = rest.split_whitespace().next().and_then(|x| x.parse().ok()).unwrap_or(0);
                        cov_max = cov_max.max(c);
                        if let Some(j) = rest.find("ft: ") {
                            let f: u64 = rest[j + 4..].split_whitespace().next().and_then(|x| x.parse().ok()).unwrap_or(0);
                            ft_max = ft_max.max(f);
                        }
                        break;
                    }
                }
            }
        }
    }
    let mut corpus_sizes = BTreeMap::new();
    for d in &decoders {
        let n = fs::read_dir(base.join(format!("corpus-{}", d))).map(|r| r.count()).unwrap_or(0);
        corpus_sizes.insert(d.to_string(), n);
    }

    // ---- confirm recorded failures and libFuzzer artifacts through the release build
    let mut candidates: Vec<(String, PathBuf, Vec<u32>, Value, &'static str)> = Vec::new();
    if let Ok(rd) = fs::read_dir(&out) {
        for e in rd.flatten() {
            let p = e.path();
            let name = p.file_name().unwrap().to_string_lossy().to_string();
            if name.starts_with("fail-") {
                if let Ok(v) = fs::read_to_string(&p).map_err(|_| ()).and_then(|s| serde_json::from_str::<Value>(&s).map_err(|_| ())) {
                    let dec = v["decoder"].as_str().unwrap_or(prop.id()).to_string();
                    candidates.push((dec, p.clone(), tape_from_json(&v["tape"]), v["identity"].clone(), "in-target oracle"));
                }
            }
        }
    }
    if let Ok(rd) = fs::read_dir(&art) {
        for e in rd.flatten() {
            let p = e.path();
            let name = p.file_name().unwrap().to_string_lossy().to_string();
            // s<shard>-crash-<sha> | s<shard>-timeout-<sha> | s<shard>-oom-<sha>
            let shard: usize = name.trim_start_matches('s').split('-').next().and_then(|x| x.parse().ok()).unwrap_or(0);
            let dec = decoders[shard % decoders.len()].to_string();
            let decp = crate::props::by_id(&dec).expect("decoder");
            let ids = decp.identities();
            let identity = json!(ids[shard % ids.len()]);
            if let Ok(b) = fs::read(&p) {
                let kind: &'static str = if name.contains("-timeout-") {
                    "libFuzzer timeout artifact"
                } else if name.contains("-oom-") {
                    "libFuzzer oom artifact"
                } else {
                    "libFuzzer crash artifact"
                };
                let t = bytes_tape(&b);
                let f = out.join(format!("artifact-{}.json", name));
                let _ = fs::write(&f, serde_json::to_string(&json!({"tape": tape_to_json(&t), "identity": identity, "decoder": dec})).unwrap());
                candidates.push((dec, f, t, identity, kind));
            }
        }
    }
    candidates.sort_by(|a, b| a.1.cmp(&b.1));
    let mut confirmed = 0u64;
    let mut not_reproduced = 0u64;
    let mut seen: BTreeMap<String, usize> = BTreeMap::new();
    for (dec, file, tape, identity, how) in candidates.into_iter().take(400) {
        let (code, so, timed_out) = replay_file(&dec, &file, Duration::from_secs(90));
        let (sig, traits): (String, Vec<String>) = if timed_out {
            // confirm on a second run before calling it a hang
            let (_c2, _s2, t2) = replay_file(&dec, &file, Duration::from_secs(90));
            if !t2 {
                not_reproduced += 1;
                continue;
            }
            ("hang:case-does-not-finish-within-90s".to_string(), vec![])
        } else {
            match code {
                Some(0) => {
                    not_reproduced += 1;
                    continue;
                }
                Some(1) => (
                    so.lines().find_map(|l| l.strip_prefix("SIGNATURE ")).unwrap_or("replay-failed").to_string(),
                    so.lines().find_map(|l| l.strip_prefix("TRAITS ")).map(|l| l.split(',').filter(|x| !x.is_empty()).map(|x| x.to_string()).collect()).unwrap_or_default(),
                ),
                Some(2) => {
                    not_reproduced += 1;
                    continue;
                }
                other => (format!("exit@{:?}:replay-process-died", other), vec![]),
            }
        };
        confirmed += 1;
        let key = format!("{}|{}", sig, traits.join(","));
        let n = seen.entry(key).or_insert(0);
        *n += 1;
        if *n > 1 {
            continue;
        }
        // minimise (same signature) for the replay file
        let small = shrink_file(&dec, &file).unwrap_or_else(|| tape.clone());
        let tmp = out.join(format!("shrunk-{:016x}.json", fnv(sig.as_bytes())));
        let _ = fs::write(&tmp, serde_json::to_string(&json!({"tape": tape_to_json(&small), "identity": identity, "decoder": dec})).unwrap());
        let (c3, so3, _) = replay_file(&dec, &tmp, Duration::from_secs(90));
        let (final_tape, detail) = if c3 == Some(1) && so3.lines().any(|l| l.strip_prefix("SIGNATURE ") == Some(sig.as_str())) { (small, so3) } else { (tape.clone(), so.clone()) };
        sup.failures.push(json!({"signature": sig, "traits": traits, "message": format!("found by the coverage-guided tier ({}), confirmed by replay in the release build", how),
            "detail": detail, "tape": tape_to_json(&final_tape), "identity": identity, "decoder": dec, "found_by": "libFuzzer"}));
    }
    sup.extra.insert(
        "fuzz".into(),
        json!({
            "ran": true, "engine": "libFuzzer (cargo-fuzz), target fuzz_prop: bytes -> choice tape -> the property's generator and oracle in-target",
            "budget_s": secs, "wall_s": (fuzz_wall * 10.0).round() / 10.0, "processes": spawned_ok, "respawns": respawns,
            "executions": execs, "executions_per_decoder": per_decoder, "seed_inputs": seeds_n, "corpus_files_at_end": corpus_sizes,
            "edge_coverage_max": cov_max, "features_max": ft_max,
            "process_exits_nonzero": early_deaths, "failures_confirmed_by_replay": confirmed, "recorded_but_not_reproduced": not_reproduced,
            "note": "a wall-clock budget: exhaustion means this much was explored, never a verdict; libFuzzer's -seed pins a campaign only approximately",
        }),
    );
}
