//! Supervisor / worker engine (DESIGN §2.3): proptest drives the choice tape in worker
//! processes; the supervisor merges results, attributes worker deaths to the in-flight case,
//! matches failures against known_findings.json, writes replay files and evidence.
use std::cell::RefCell;
use std::collections::{BTreeMap, BTreeSet};
use std::fs;
use std::io::{Read, Seek, SeekFrom, Write};
use std::panic::{self, AssertUnwindSafe};
use std::path::{Path, PathBuf};
use std::process::{Command, Stdio};
use std::time::{Duration, Instant};

use proptest::prelude::*;
use proptest::test_runner::{Config as PtConfig, RngSeed, TestCaseError, TestError, TestRunner};
use serde_json::{json, Value};

use crate::tape::{fnv, Tape};

#[derive(Clone, Copy, Debug, PartialEq, Eq)]
pub enum Tier {
    Quick,
    Thorough,
}
impl Tier {
    pub fn name(self) -> &'static str {
        match self {
            Tier::Quick => "quick",
            Tier::Thorough => "thorough",
        }
    }
    pub fn parse(s: &str) -> Tier {
        if s == "thorough" {
            Tier::Thorough
        } else {
            Tier::Quick
        }
    }
}

#[derive(Clone, Debug)]
pub struct Failure {
    /// exact identity of the root cause as far as the oracle can tell (matched against
    /// known_findings.json): `panic@file:line`, or a named predicate
    pub signature: String,
    pub message: String,
    pub detail: Value,
    /// features of the failing case that tell root causes apart when they meet at one
    /// panic site (a known finding may require some of them)
    pub traits: Vec<String>,
}

impl Failure {
    pub fn new(signature: impl Into<String>, message: impl Into<String>) -> Failure {
        Failure { signature: signature.into(), message: message.into(), detail: Value::Null, traits: Vec::new() }
    }
    pub fn traits(mut self, t: Vec<String>) -> Failure {
        self.traits = t;
        self
    }
    pub fn with(mut self, detail: Value) -> Failure {
        self.detail = detail;
        self
    }
}

pub enum Verdict {
    Pass,
    /// the generated case is outside the property's domain (counted, never a failure)
    Skip(&'static str),
    Fail(Failure),
}

/// Per-worker context: counters and samples that end up in the evidence file.
pub struct Ctx {
    pub tier: Tier,
    pub seed: u64,
    pub identity: Vec<String>,
    pub scratch: PathBuf,
    pub shard: usize,
    pub nontrivial: BTreeSet<u64>,
    pub classes: BTreeMap<String, u64>,
    pub samples: Vec<Value>,
    pub sample_budget: usize,
    pub xchecks: Vec<Value>,
    pub xcheck_every: u64,
    pub case_no: u64,
    /// strict = replay mode: no sampling, no counting
    pub replay: bool,
    pub notes: BTreeMap<String, u64>,
    pub strict: bool,
}

impl Ctx {
    pub fn new(tier: Tier, seed: u64, identity: Vec<String>, scratch: PathBuf, shard: usize) -> Ctx {
        Ctx {
            tier,
            seed,
            identity,
            scratch,
            shard,
            nontrivial: BTreeSet::new(),
            classes: BTreeMap::new(),
            samples: Vec::new(),
            sample_budget: 2,
            xchecks: Vec::new(),
            xcheck_every: 50,
            case_no: 0,
            replay: false,
            notes: BTreeMap::new(),
            strict: false,
        }
    }
    pub fn class(&mut self, name: &str) {
        if !self.replay {
            *self.classes.entry(name.to_string()).or_insert(0) += 1;
        }
    }
    pub fn class_if(&mut self, cond: bool, name: &str) {
        if cond {
            self.class(name)
        }
    }
    pub fn nontrivial(&mut self, fingerprint: u64) {
        if !self.replay {
            self.nontrivial.insert(fingerprint);
        }
    }
    pub fn want_sample(&self) -> bool {
        !self.replay && self.samples.len() < self.sample_budget
    }
    pub fn sample(&mut self, v: Value) {
        if self.want_sample() {
            self.samples.push(v);
        }
    }
    pub fn want_xcheck(&self) -> bool {
        !self.replay && self.xcheck_every > 0 && self.case_no % self.xcheck_every == 1 && self.xchecks.len() < 12
    }
    pub fn gitconfig_path(&self) -> String {
        self.scratch.join(format!("w{}-{}.gitconfig", std::process::id(), self.shard)).to_string_lossy().into_owned()
    }
}

/// What a property provides.
pub trait Prop: Sync {
    fn id(&self) -> &'static str;
    fn level(&self) -> &'static str {
        "exploration"
    }
    /// calling-process identities; worker i uses identities[i % len]
    fn identities(&self) -> Vec<Vec<String>> {
        vec![vec!["git".to_string(), "diff".to_string()]]
    }
    /// total number of generated in-process cases
    fn cases(&self, tier: Tier) -> usize;
    fn tape_len(&self, _tier: Tier) -> usize {
        1500
    }
    fn rule(&self) -> String;
    fn assumptions(&self) -> Vec<String>;
    /// one generated case; must be a pure function of the tape (and ctx.identity)
    fn check(&self, tape: &mut Tape, ctx: &mut Ctx) -> Verdict;
    /// decode the case a tape stands for, without running delta (used to describe a case
    /// that killed its worker process)
    fn describe(&self, _tape: &mut Tape, _ctx: &mut Ctx) -> Value {
        Value::Null
    }
    /// Exhaustive small-scope enumeration, split over the worker processes: worker `shard` of
    /// `nshards` enumerates its share before the random cases.  Returns the failures found.
    fn exhaustive_phase(&self, _shard: usize, _nshards: usize, _ctx: &mut Ctx) -> Vec<Failure> {
        Vec::new()
    }
    /// property-specific phases run by the supervisor after the workers (real binary, pipes,
    /// enumerations...).  Returns failures and contributes to evidence via `sup`.
    fn supervisor_phase(&self, _sup: &mut Sup) {}
    /// replay a case recorded by the supervisor phase (a replay file without a tape)
    fn replay_supervisor_case(&self, _case: &Value) -> Option<Verdict> {
        None
    }
    /// does this property need the real binary built?
    fn needs_binary(&self) -> bool {
        false
    }
    /// number of worker processes
    fn workers(&self) -> usize {
        16
    }
    /// Coverage-guided tier (fuzzdrv.rs): ids of the decoders (properties whose `check` turns a
    /// libFuzzer input, read as a choice tape, into a case) to run for this property.  Empty =
    /// the property is decided on separate processes / schedules, where in-process coverage
    /// feedback has nothing to steer.
    fn fuzz_decoders(&self) -> Vec<&'static str> {
        vec![self.id()]
    }
    /// Is "this case does not finish" itself a violation of the property (C03: never hangs)?  Then a
    /// case the watchdog had to stop is re-run twice in a fresh process, and reported if neither
    /// run ends within 90 s (thousands of times the cost of an ordinary case); otherwise a watchdog
    /// stop is an infrastructure note (exit 2), never a verdict.
    fn hang_is_violation(&self) -> bool {
        false
    }
    /// how long one case may run before the watchdog stops the worker (a C18 case is a whole
    /// enumeration of fault points, each a run of the binary: minutes in the thorough tier on a busy machine)
    fn watchdog_secs(&self, tier: Tier) -> u64 {
        if tier == Tier::Quick {
            60
        } else {
            120
        }
    }
    /// default wall-clock budget of the coverage-guided tier in the thorough tier (seconds)
    fn fuzz_default_secs(&self) -> u64 {
        240
    }
    /// decoder-specific golden seed inputs (already in the decoder's byte layout)
    fn fuzz_seeds(&self, _seed: u64) -> Vec<Vec<u8>> {
        Vec::new()
    }
}

// ---------------------------------------------------------------------------------------------
// panic capture

thread_local! {
    static LAST_PANIC: RefCell<Option<(String, String)>> = const { RefCell::new(None) };
}

pub fn install_panic_hook() {
    dut::verif_api::set_fatal_hook(crate::exittrap::fatal_hook);
    panic::set_hook(Box::new(|info| {
        let loc = info
            .location()
            .map(|l| format!("{}:{}", l.file(), l.line()))
            .unwrap_or_else(|| "?".to_string());
        if let Some(t) = info.payload().downcast_ref::<crate::exittrap::ExitTrap>() {
            let first = t.stderr.lines().rev().find(|l| !l.trim().is_empty()).unwrap_or("").to_string();
            LAST_PANIC.with(|p| *p.borrow_mut() = Some((format!("exit@{}", t.code), first)));
            return;
        }
        let msg = if let Some(s) = info.payload().downcast_ref::<&str>() {
            s.to_string()
        } else if let Some(s) = info.payload().downcast_ref::<String>() {
            s.clone()
        } else {
            "<non-string panic payload>".to_string()
        };
        // Root-cause identity must survive unrelated edits of the same file: use the innermost
        // delta function (from the backtrace) instead of the line number; for a panic raised
        // inside std or a dependency this also names the delta caller.
        let bt = std::backtrace::Backtrace::force_capture().to_string();
        let frame = bt
            .lines()
            .filter_map(|l| l.trim().split_once(": ").map(|x| x.1.to_string()))
            .find(|f| (f.starts_with("dut::") && !f.starts_with("dut::verif_api")) || f.starts_with("<dut::") || f.starts_with("delta::") || f.starts_with("<delta::"));
        let loc = match frame {
            Some(f) => {
                let f = f.split("::h").next().unwrap_or(&f).to_string();
                let file = if loc.starts_with("/rustc/") || loc.contains("/.cargo/registry/") { String::new() } else { loc.rsplit_once(':').map(|x| x.0.to_string()).unwrap_or(loc.clone()) };
                format!("{}|fn:{}", file, f)
            }
            None => loc,
        };
        LAST_PANIC.with(|p| *p.borrow_mut() = Some((loc, msg)));
    }));
}

#[derive(Clone, Debug)]
pub struct PanicInfo {
    pub location: String,
    pub message: String,
}

impl PanicInfo {
    /// location with the source root stripped, e.g. `src/paint.rs:264`
    pub fn short_location(&self) -> String {
        if let Some((file, func)) = self.location.split_once("|fn:") {
            let file = match file.find("/src/") {
                Some(i) => &file[i + 1..],
                None => file,
            };
            return format!("{}:{}", file, func.replace("dut::", "").replace("delta::", ""));
        }
        let l = &self.location;
        if let Some(i) = l.find("/src/") {
            // keep crate-relative path for registry crates, `src/...` for delta itself
            if l.contains("/.cargo/registry/") {
                let tail = &l[l.rfind("/registry/src/").map(|k| k + 14).unwrap_or(0)..];
                // strip the index directory
                return tail.splitn(2, '/').nth(1).unwrap_or(tail).to_string();
            }
            return l[i + 1..].to_string();
        }
        l.clone()
    }
    pub fn signature(&self) -> String {
        if self.location.starts_with("exit@") {
            let msg: String = self.message.chars().take(60).map(|c| if c.is_ascii_digit() { '#' } else { c }).collect();
            return format!("{}:{}", self.location, msg);
        }
        // root-cause identity: location + the constant head of the message (cut where input-
        // dependent material starts: a digit, a quote or a backquote)
        let mut msg = String::new();
        for c in self.message.chars() {
            if c.is_ascii_digit() || c == '`' || c == '"' || c == '\'' || msg.len() >= 40 {
                break;
            }
            msg.push(c);
        }
        format!("panic@{}:{}", self.short_location(), msg.trim_end())
    }
    pub fn failure(&self) -> Failure {
        if self.location.starts_with("exit@") {
            return Failure::new(self.signature(), format!("delta called process::exit ({}) after printing: {}", self.location, self.message));
        }
        Failure::new(self.signature(), format!("panicked at {}: {}", self.location, self.message))
    }
}

/// Run `f`, converting a panic into Err.
pub fn guarded<T>(f: impl FnOnce() -> T) -> Result<T, PanicInfo> {
    LAST_PANIC.with(|p| *p.borrow_mut() = None);
    crate::exittrap::enter_case();
    let r = panic::catch_unwind(AssertUnwindSafe(f));
    crate::exittrap::leave_case();
    match r {
        Ok(v) => Ok(v),
        Err(_) => {
            let (location, message) = LAST_PANIC
                .with(|p| p.borrow_mut().take())
                .unwrap_or_else(|| ("?".to_string(), "?".to_string()));
            Err(PanicInfo { location, message })
        }
    }
}

// ---------------------------------------------------------------------------------------------
// identity of the process: who called delta, and whether stdout is a terminal

static SAVED_STDOUT: std::sync::atomic::AtomicI32 = std::sync::atomic::AtomicI32::new(-1);

/// Make fd 1 of this process a pseudo-terminal of the given size (delta asks `isatty(1)` and
/// the window size to choose the fill method and the default width).  The master side is
/// drained by a thread.  The previous stdout is kept and can be put back with `restore_stdout`.
pub fn attach_pty_stdout(cols: u16, rows: u16) -> bool {
    unsafe {
        let mut master: libc::c_int = -1;
        let mut slave: libc::c_int = -1;
        let ws = libc::winsize { ws_row: rows, ws_col: cols, ws_xpixel: 0, ws_ypixel: 0 };
        if libc::openpty(&mut master, &mut slave, std::ptr::null_mut(), std::ptr::null(), &ws) != 0 {
            return false;
        }
        let saved = libc::dup(1);
        SAVED_STDOUT.store(saved, std::sync::atomic::Ordering::SeqCst);
        libc::dup2(slave, 1);
        libc::close(slave);
        std::thread::spawn(move || {
            let mut buf = [0u8; 4096];
            loop {
                let n = libc::read(master, buf.as_mut_ptr() as *mut libc::c_void, buf.len());
                if n <= 0 {
                    break;
                }
            }
        });
        libc::isatty(1) == 1
    }
}

pub fn restore_stdout() {
    let saved = SAVED_STDOUT.swap(-1, std::sync::atomic::Ordering::SeqCst);
    if saved >= 0 {
        unsafe {
            libc::dup2(saved, 1);
            libc::close(saved);
        }
    }
}

/// An identity is the argv of the process that called delta; a trailing pseudo-argument `@pty`
/// asks for stdout to be a terminal (80x24).  Must be applied once, before the first Session.
pub fn apply_identity(identity: &[String]) {
    let pty = identity.last().map(|s| s == "@pty").unwrap_or(false);
    let real: Vec<String> = identity.iter().filter(|s| *s != "@pty").cloned().collect();
    if pty && !attach_pty_stdout(80, 24) {
        eprintln!("cannot create a pseudo-terminal");
        std::process::exit(2);
    }
    dut::verif_api::set_calling_process(&real);
}

pub fn identity_wants_tty(identity: &[String]) -> bool {
    identity.last().map(|s| s == "@pty").unwrap_or(false)
}

// ---------------------------------------------------------------------------------------------
// known findings

#[derive(Clone, Debug)]
pub struct Known {
    pub id: String,
    pub property: String,
    pub signature: String,
    /// further panic sites / predicates at which the same root cause manifests
    pub also: Vec<String>,
    pub what: String,
    pub requires: Vec<String>,
    pub requires_any: Vec<String>,
}

pub fn verif_root() -> PathBuf {
    if let Ok(p) = std::env::var("VERIF_ROOT") {
        return PathBuf::from(p);
    }
    // .../harness/target/release/vcheck -> ../../..
    let exe = std::env::current_exe().unwrap();
    let mut p = exe.clone();
    for _ in 0..4 {
        p = p.parent().map(|x| x.to_path_buf()).unwrap_or(p);
    }
    if p.join("properties.jsonl").exists() {
        p
    } else {
        PathBuf::from("/verif")
    }
}

pub fn load_known(prop: &str) -> Vec<Known> {
    let path = verif_root().join("known_findings.json");
    let mut out = Vec::new();
    if let Ok(s) = fs::read_to_string(&path) {
        if let Ok(v) = serde_json::from_str::<Value>(&s) {
            if let Some(a) = v.get("findings").and_then(|x| x.as_array()) {
                for f in a {
                    let status = f.get("status").and_then(|x| x.as_str()).unwrap_or("open");
                    let p = f.get("property").and_then(|x| x.as_str()).unwrap_or("");
                    // a crash signature listed under C03 also excludes that crash while
                    // checking other properties (DESIGN §2.3)
                    if status == "open" && (p == prop || p == "C03") {
                        out.push(Known {
                            id: f.get("id").and_then(|x| x.as_str()).unwrap_or("").to_string(),
                            property: p.to_string(),
                            signature: f.get("signature").and_then(|x| x.as_str()).unwrap_or("").to_string(),
                            what: f.get("what").and_then(|x| x.as_str()).unwrap_or("").to_string(),
                            also: f.get("also").and_then(|x| x.as_array()).map(|a| a.iter().filter_map(|x| x.as_str().map(|s| s.to_string())).collect()).unwrap_or_default(),
                            requires_any: f.get("requires_any").and_then(|x| x.as_array()).map(|a| a.iter().filter_map(|x| x.as_str().map(|s| s.to_string())).collect()).unwrap_or_default(),
                            requires: f.get("requires").and_then(|x| x.as_array()).map(|a| a.iter().filter_map(|x| x.as_str().map(|s| s.to_string())).collect()).unwrap_or_default(),
                        });
                    }
                }
            }
        }
    }
    out
}

pub fn match_known<'a>(known: &'a [Known], sig: &str, traits: &[String]) -> Option<&'a Known> {
    known.iter().find(|k| !k.signature.is_empty() && (sig.starts_with(&k.signature) || k.also.iter().any(|a| !a.is_empty() && sig.starts_with(a))) && k.requires.iter().all(|r| traits.contains(r)) && (k.requires_any.is_empty() || k.requires_any.iter().any(|r| traits.contains(r))))
}

fn traits_of(v: &Value) -> Vec<String> {
    v.get("traits").and_then(|x| x.as_array()).map(|a| a.iter().filter_map(|x| x.as_str().map(|s| s.to_string())).collect()).unwrap_or_default()
}

// ---------------------------------------------------------------------------------------------
// worker

fn mix(seed: u64, a: u64, b: u64) -> u64 {
    let mut h = fnv(&seed.to_le_bytes());
    h = crate::tape::fnv_add(h, &a.to_le_bytes());
    h = crate::tape::fnv_add(h, &b.to_le_bytes());
    h
}

fn tape_strategy(max_len: usize) -> impl Strategy<Value = Vec<u32>> {
    let short = (max_len / 8).max(8);
    prop_oneof![
        1 => proptest::collection::vec(any::<u32>(), 0..short),
        5 => proptest::collection::vec(any::<u32>(), short..max_len.max(short + 1)),
    ]
}

pub struct WorkerArgs {
    pub prop: String,
    pub tier: Tier,
    pub seed: u64,
    pub shard: usize,
    pub nshards: usize,
    pub out: PathBuf,
    pub inflight: PathBuf,
    pub first_batch: usize,
}

const BATCH: usize = 100;

fn write_inflight(f: &mut fs::File, batch: usize, tape: &[u32]) {
    let mut buf: Vec<u8> = Vec::with_capacity(16 + tape.len() * 4);
    buf.extend_from_slice(&(batch as u64).to_le_bytes());
    buf.extend_from_slice(&(tape.len() as u64).to_le_bytes());
    for v in tape {
        buf.extend_from_slice(&v.to_le_bytes());
    }
    let _ = f.seek(SeekFrom::Start(0));
    let _ = f.write_all(&buf);
    let _ = f.set_len(buf.len() as u64);
}

pub fn read_inflight(p: &Path) -> Option<(usize, Vec<u32>)> {
    let mut b = Vec::new();
    fs::File::open(p).ok()?.read_to_end(&mut b).ok()?;
    if b.len() < 16 {
        return None;
    }
    let batch = u64::from_le_bytes(b[0..8].try_into().unwrap()) as usize;
    let n = u64::from_le_bytes(b[8..16].try_into().unwrap()) as usize;
    if b.len() < 16 + n * 4 {
        return None;
    }
    let tape = (0..n).map(|i| u32::from_le_bytes(b[16 + i * 4..20 + i * 4].try_into().unwrap())).collect();
    Some((batch, tape))
}

pub fn tape_to_json(t: &[u32]) -> Value {
    Value::Array(t.iter().map(|v| json!(*v)).collect())
}
pub fn tape_from_json(v: &Value) -> Vec<u32> {
    v.as_array().map(|a| a.iter().map(|x| x.as_u64().unwrap_or(0) as u32).collect()).unwrap_or_default()
}

pub fn worker_main(prop: &dyn Prop, a: &WorkerArgs) -> i32 {
    // a runaway allocation in the code under test must end this worker, not the machine
    unsafe {
        let lim = libc::rlimit { rlim_cur: 6 << 30, rlim_max: 6 << 30 };
        libc::setrlimit(libc::RLIMIT_AS, &lim);
    }
    install_panic_hook();
    crate::exittrap::capture_stderr();
    let ids = prop.identities();
    let identity = ids[a.shard % ids.len()].clone();
    apply_identity(&identity);
    let scratch = verif_root().join("target/scratch");
    let _ = fs::create_dir_all(&scratch);
    let total = prop.cases(a.tier);
    let per_shard = (total + a.nshards - 1) / a.nshards;
    let nbatches = (per_shard + BATCH - 1) / BATCH;
    let known = load_known(prop.id());
    let mut out = fs::OpenOptions::new().create(true).append(true).open(&a.out).expect("open out");
    let mut inflight = fs::OpenOptions::new().create(true).write(true).truncate(false).open(&a.inflight).expect("open inflight");

    if a.first_batch == 0 {
        // exhaustive small-scope enumeration (this worker's share)
        let mut c = Ctx::new(a.tier, a.seed, identity.clone(), scratch.clone(), a.shard);
        write_inflight(&mut inflight, usize::MAX >> 1, &[]);
        let fails = match guarded(|| prop.exhaustive_phase(a.shard, a.nshards, &mut c)) {
            Ok(f) => f,
            Err(p) => vec![p.failure()],
        };
        let failures: Vec<Value> = fails
            .iter()
            .filter(|f| match_known(&known, &f.signature, &f.traits).is_none())
            .map(|f| json!({"signature": f.signature, "message": f.message, "detail": f.detail, "traits": f.traits, "tape": [], "identity": identity, "shard": a.shard, "batch": -1, "exhaustive": true}))
            .collect();
        let kh: Vec<Value> = fails
            .iter()
            .filter(|f| match_known(&known, &f.signature, &f.traits).is_some())
            .map(|f| json!({"signature": f.signature, "traits": f.traits, "count": 1, "tape": []}))
            .collect();
        let line = json!({
            "batch": -1, "shard": a.shard, "evaluations": c.notes.get("exhaustive-evaluations").copied().unwrap_or(0),
            "skipped": {}, "nontrivial": c.nontrivial.iter().map(|x| format!("{:016x}", x)).collect::<Vec<_>>(),
            "classes": c.classes, "samples": c.samples, "xchecks": [], "failures": failures, "known": kh, "notes": c.notes,
        });
        writeln!(out, "{}", line).unwrap();
        out.flush().unwrap();
    }
    for b in a.first_batch..nbatches {
        let ncases = BATCH.min(per_shard - b * BATCH);
        let ctx = RefCell::new(Ctx::new(a.tier, a.seed, identity.clone(), scratch.clone(), a.shard));
        ctx.borrow_mut().case_no = (b * BATCH) as u64;
        let evaluations = RefCell::new(0u64);
        let skipped: RefCell<BTreeMap<String, u64>> = RefCell::new(BTreeMap::new());
        let known_hits: RefCell<BTreeMap<String, (u64, Vec<u32>)>> = RefCell::new(BTreeMap::new());
        let target_sig: RefCell<Option<String>> = RefCell::new(None);
        // shrinking is bounded in time as well (a failing case may be expensive to re-run, e.g.
        // a process that has to be timed out): after the budget the current candidate is kept
        let shrink_started: RefCell<Option<Instant>> = RefCell::new(None);
        let shrink_budget = Duration::from_secs(if a.tier == Tier::Quick { 90 } else { 300 });
        let inflight_cell = RefCell::new(&mut inflight);
        let mut runner = TestRunner::new(PtConfig {
            cases: ncases as u32,
            failure_persistence: None,
            rng_seed: RngSeed::Fixed(mix(a.seed, a.shard as u64, b as u64)),
            max_shrink_iters: if a.tier == Tier::Quick { 400 } else { 1500 },
            max_global_rejects: 1_000_000,
            ..PtConfig::default()
        });
        let result = runner.run(&tape_strategy(prop.tape_len(a.tier)), |tape_vec| {
            write_inflight(&mut inflight_cell.borrow_mut(), b, &tape_vec);
            let shrinking = target_sig.borrow().is_some();
            if shrinking && shrink_started.borrow().map(|t| t.elapsed() > shrink_budget).unwrap_or(false) {
                return Ok(());
            }
            let mut tape = Tape::new(tape_vec.clone());
            let mut c = ctx.borrow_mut();
            if !shrinking {
                c.case_no += 1;
                *evaluations.borrow_mut() += 1;
            } else {
                c.replay = true;
            }
            let v = match guarded(|| prop.check(&mut tape, &mut c)) {
                Ok(v) => v,
                Err(p) => Verdict::Fail(p.failure()),
            };
            c.replay = false;
            match v {
                Verdict::Pass => Ok(()),
                Verdict::Skip(why) => {
                    if !shrinking {
                        *skipped.borrow_mut().entry(why.to_string()).or_insert(0) += 1;
                    }
                    Ok(())
                }
                Verdict::Fail(f) => {
                    if let Some(_k) = match_known(&known, &f.signature, &f.traits) {
                        if !shrinking {
                            let mut kh = known_hits.borrow_mut();
                            let key = format!("{}|{}", f.signature, f.traits.join(","));
                            let e = kh.entry(key).or_insert((0, tape_vec.clone()));
                            e.0 += 1;
                            if tape_vec.len() < e.1.len() {
                                e.1 = tape_vec.clone();
                            }
                        }
                        return Ok(());
                    }
                    let mut ts = target_sig.borrow_mut();
                    match &*ts {
                        None => {
                            *ts = Some(f.signature.clone());
                            *shrink_started.borrow_mut() = Some(Instant::now());
                            Err(TestCaseError::fail(f.signature))
                        }
                        Some(s) if *s == f.signature => Err(TestCaseError::fail(f.signature)),
                        Some(_) => Ok(()), // a different failure met while shrinking: not ours
                    }
                }
            }
        });
        let mut failures: Vec<Value> = Vec::new();
        if let Err(TestError::Fail(_, shrunk)) = result {
            // re-run the shrunk tape for the full verdict
            let mut c = ctx.borrow_mut();
            c.replay = true;
            let mut tape = Tape::new(shrunk.clone());
            let v = match guarded(|| prop.check(&mut tape, &mut c)) {
                Ok(v) => v,
                Err(p) => Verdict::Fail(p.failure()),
            };
            c.replay = false;
            if let Verdict::Fail(f) = v {
                failures.push(json!({"signature": f.signature, "message": f.message, "detail": f.detail, "traits": f.traits,
                    "tape": tape_to_json(&shrunk), "identity": identity, "shard": a.shard, "batch": b}));
            } else {
                failures.push(json!({"signature": target_sig.borrow().clone().unwrap_or_default(),
                    "message": "failure did not reproduce on the shrunk tape (flaky?)", "detail": Value::Null,
                    "tape": tape_to_json(&shrunk), "identity": identity, "shard": a.shard, "batch": b, "flaky": true}));
            }
        }
        let c = ctx.into_inner();
        let kh: Vec<Value> = known_hits
            .into_inner()
            .into_iter()
            .map(|(s, (n, t))| {
                let mut it = s.splitn(2, '|');
                let sig = it.next().unwrap_or("").to_string();
                let traits: Vec<String> = it.next().unwrap_or("").split(',').filter(|x| !x.is_empty()).map(|x| x.to_string()).collect();
                json!({"signature": sig, "traits": traits, "count": n, "tape": tape_to_json(&t), "identity": identity})
            })
            .collect();
        let line = json!({
            "batch": b, "shard": a.shard, "evaluations": *evaluations.borrow(),
            "skipped": *skipped.borrow(),
            "nontrivial": c.nontrivial.iter().map(|x| format!("{:016x}", x)).collect::<Vec<_>>(),
            "classes": c.classes, "samples": c.samples, "xchecks": c.xchecks,
            "failures": failures, "known": kh, "notes": c.notes,
        });
        writeln!(out, "{}", line).unwrap();
        out.flush().unwrap();
    }
    // mark clean completion
    writeln!(out, "{}", json!({"done": true, "shard": a.shard})).unwrap();
    0
}

// ---------------------------------------------------------------------------------------------
// supervisor

pub struct Sup {
    pub prop_id: String,
    pub tier: Tier,
    pub seed: u64,
    pub root: PathBuf,
    pub evaluations: u64,
    pub nontrivial: BTreeSet<String>,
    pub classes: BTreeMap<String, u64>,
    pub skipped: BTreeMap<String, u64>,
    pub samples: Vec<Value>,
    pub xchecks: Vec<Value>,
    pub failures: Vec<Value>,
    pub known_hits: BTreeMap<String, (u64, Value)>,
    pub extra: BTreeMap<String, Value>,
    pub infra_errors: Vec<String>,
    pub notes: BTreeMap<String, u64>,
    pub exhaustive: Option<bool>,
}

impl Sup {
    pub fn fail(&mut self, f: Failure, replay: Value) {
        self.failures.push(json!({"signature": f.signature, "message": f.message, "detail": f.detail, "traits": f.traits, "case": replay}));
    }
    pub fn class(&mut self, name: &str) {
        *self.classes.entry(name.to_string()).or_insert(0) += 1;
    }
    pub fn delta_bin(&self) -> PathBuf {
        self.root.join("target/bin/release/delta")
    }
    pub fn scratch(&self) -> PathBuf {
        let p = self.root.join("target/scratch");
        let _ = fs::create_dir_all(&p);
        p
    }
}

fn absorb_line(sup: &mut Sup, v: &Value) {
    if v.get("done").is_some() {
        return;
    }
    sup.evaluations += v["evaluations"].as_u64().unwrap_or(0);
    if let Some(a) = v["nontrivial"].as_array() {
        for x in a {
            sup.nontrivial.insert(x.as_str().unwrap_or("").to_string());
        }
    }
    if let Some(m) = v["classes"].as_object() {
        for (k, n) in m {
            *sup.classes.entry(k.clone()).or_insert(0) += n.as_u64().unwrap_or(0);
        }
    }
    if let Some(m) = v["notes"].as_object() {
        for (k, n) in m {
            *sup.notes.entry(k.clone()).or_insert(0) += n.as_u64().unwrap_or(0);
        }
    }
    if let Some(m) = v["skipped"].as_object() {
        for (k, n) in m {
            *sup.skipped.entry(k.clone()).or_insert(0) += n.as_u64().unwrap_or(0);
        }
    }
    if let Some(a) = v["samples"].as_array() {
        for s in a {
            if sup.samples.len() < 5 {
                sup.samples.push(s.clone());
            }
        }
    }
    if let Some(a) = v["xchecks"].as_array() {
        for s in a {
            sup.xchecks.push(s.clone());
        }
    }
    if let Some(a) = v["failures"].as_array() {
        for s in a {
            sup.failures.push(s.clone());
        }
    }
    if let Some(a) = v["known"].as_array() {
        for k in a {
            let sig = format!("{}|{}", k["signature"].as_str().unwrap_or(""), traits_of(k).join(","));
            let e = sup.known_hits.entry(sig).or_insert((0, json!({"tape": k["tape"].clone(), "identity": k["identity"].clone()})));
            e.0 += k["count"].as_u64().unwrap_or(0);
        }
    }
}

pub struct RunArgs {
    pub tier: Tier,
    pub seed: u64,
    pub jobs: usize,
}

pub fn supervisor_main(prop: &dyn Prop, a: &RunArgs) -> i32 {
    let t0 = Instant::now();
    let root = verif_root();
    let id = prop.id().to_string();
    let run_dir = root.join(format!("target/run/{}-{}", id, std::process::id()));
    let _ = fs::remove_dir_all(&run_dir);
    fs::create_dir_all(&run_dir).unwrap();
    let mut sup = Sup {
        prop_id: id.clone(),
        tier: a.tier,
        seed: a.seed,
        root: root.clone(),
        evaluations: 0,
        nontrivial: BTreeSet::new(),
        classes: BTreeMap::new(),
        skipped: BTreeMap::new(),
        samples: Vec::new(),
        xchecks: Vec::new(),
        failures: Vec::new(),
        known_hits: BTreeMap::new(),
        extra: BTreeMap::new(),
        infra_errors: Vec::new(),
        notes: BTreeMap::new(),
        exhaustive: None,
    };
    let known = load_known(&id);

    // 1. replay tier: saved counterexamples first
    let replay_dir = root.join("replays").join(&id);
    let mut replayed = 0;
    if let Ok(rd) = fs::read_dir(&replay_dir) {
        let mut files: Vec<PathBuf> = rd.filter_map(|e| e.ok().map(|e| e.path())).filter(|p| p.extension().map(|e| e == "json").unwrap_or(false)).collect();
        files.sort();
        for f in files {
            replayed += 1;
            let o = Command::new(std::env::current_exe().unwrap())
                .args(["replay", &id, f.to_str().unwrap(), "--quiet"])
                .stdin(Stdio::null())
                .output();
            match o {
                Ok(o) => {
                    let code = o.status.code().unwrap_or(-1);
                    let so = String::from_utf8_lossy(&o.stdout).to_string();
                    if code == 1 {
                        // the replay still fails: report with its signature
                        let sig = so.lines().find_map(|l| l.strip_prefix("SIGNATURE ")).unwrap_or("replay-failed").to_string();
                        let traits: Vec<String> = so.lines().find_map(|l| l.strip_prefix("TRAITS ")).map(|l| l.split(',').filter(|x| !x.is_empty()).map(|x| x.to_string()).collect()).unwrap_or_default();
                        sup.failures.push(json!({"signature": sig, "traits": traits, "message": format!("saved replay {} fails", f.display()),
                            "detail": so, "replay_file": f.to_string_lossy()}));
                    } else if code != 0 {
                        // a replay that kills the process is a failure of that case too
                        sup.failures.push(json!({"signature": format!("exit@{}", code), "message": format!("saved replay {} ended with status {}", f.display(), code),
                            "detail": String::from_utf8_lossy(&o.stderr).to_string(), "replay_file": f.to_string_lossy()}));
                    }
                }
                Err(e) => sup.infra_errors.push(format!("cannot run replay: {}", e)),
            }
        }
    }
    sup.extra.insert("replays_run".into(), json!(replayed));

    // 2. generated cases in worker processes
    let nworkers = prop.workers().min(a.jobs).max(1);
    let total = prop.cases(a.tier);
    if total > 0 {
        run_workers(prop, a, &run_dir, nworkers, &mut sup);
    }

    // 2b. coverage-guided tier (libFuzzer over the same generators and oracles), thorough tier or
    //     when VERIF_FUZZ_SECS is set
    if sup.infra_errors.is_empty() {
        match guarded(|| crate::fuzzdrv::fuzz_phase(prop, a, &mut sup)) {
            Ok(()) => {}
            Err(p) => sup.infra_errors.push(format!("fuzz phase panicked: {} {}", p.location, p.message)),
        }
    }

    // 3. property-specific supervisor phases (binary, pipes, enumerations)
    if sup.infra_errors.is_empty() {
        match guarded(|| prop.supervisor_phase(&mut sup)) {
            Ok(()) => {}
            Err(p) => sup.infra_errors.push(format!("supervisor phase panicked: {} {}", p.location, p.message)),
        }
    }

    // 4. verdicts
    let mut violations: Vec<(String, PathBuf)> = Vec::new();
    let mut known_lines: Vec<String> = Vec::new();
    let mut seen_sigs: BTreeSet<String> = BTreeSet::new();
    let out_replays = root.join("target/replays").join(&id);
    let _ = fs::create_dir_all(&out_replays);
    let failures = std::mem::take(&mut sup.failures);
    for f in &failures {
        let sig = f["signature"].as_str().unwrap_or("").to_string();
        let traits = traits_of(f);
        if let Some(k) = match_known(&known, &sig, &traits) {
            let e = sup.known_hits.entry(format!("{}|{}", sig, traits.join(","))).or_insert((0, json!({"tape": f.get("tape").cloned().unwrap_or(Value::Null), "identity": f.get("identity").cloned().unwrap_or(Value::Null)})));
            e.0 += 1;
            let _ = k;
            continue;
        }
        if !seen_sigs.insert(sig.clone()) {
            continue;
        }
        let name = format!("{:016x}.json", fnv(sig.as_bytes()));
        let path = if let Some(p) = f.get("replay_file").and_then(|x| x.as_str()) { PathBuf::from(p) } else { out_replays.join(name) };
        if f.get("replay_file").is_none() {
            let mut body = f.clone();
            body["property"] = json!(id);
            body["seed"] = json!(a.seed);
            body["tier"] = json!(a.tier.name());
            let _ = fs::write(&path, serde_json::to_string_pretty(&body).unwrap());
        }
        violations.push((sig, path));
    }
    let mut known_seen: BTreeMap<String, (u64, String)> = BTreeMap::new();
    for (key, (n, _)) in &sup.known_hits {
        let mut it = key.splitn(2, '|');
        let sig = it.next().unwrap_or("");
        let traits: Vec<String> = it.next().unwrap_or("").split(',').filter(|x| !x.is_empty()).map(|x| x.to_string()).collect();
        if let Some(k) = match_known(&known, sig, &traits) {
            let e = known_seen.entry(k.id.clone()).or_insert((0, sig.to_string()));
            e.0 += n;
        }
    }
    if std::env::var_os("VERIF_SAVE_KNOWN").is_some() {
        // maintenance aid (never used by a registered command): keep one reproducing tape per
        // listed finding under replays/<id>/ so that the replay tier shows it on every run
        let dir = root.join("replays").join(&id);
        let _ = fs::create_dir_all(&dir);
        for (key, (_, tv)) in &sup.known_hits {
            let mut it = key.splitn(2, '|');
            let sig = it.next().unwrap_or("");
            let traits: Vec<String> = it.next().unwrap_or("").split(',').filter(|x| !x.is_empty()).map(|x| x.to_string()).collect();
            if let Some(k) = match_known(&known, sig, &traits) {
                let p = dir.join(format!("{}.json", k.id));
                if !p.exists() && tv["tape"].as_array().map(|a| !a.is_empty()).unwrap_or(false) {
                    let _ = fs::write(&p, serde_json::to_string(&json!({"tape": tv["tape"], "identity": tv["identity"], "expect_signature": sig, "expect_traits": traits, "known_finding": k.id})).unwrap());
                }
            }
        }
    }
    for (kid, (n, sig)) in &known_seen {
        if let Some(k) = known.iter().find(|k| &k.id == kid) {
            let line = format!("KNOWN-FINDING: property={} {} [{}] ({} cases; signature {})", if k.property == id { &id } else { &k.property }, k.what, k.id, n, sig);
            known_lines.push(line);
        }
    }

    // 5. evidence
    let wall = t0.elapsed().as_secs_f64();
    let mut coverage = json!({
        "evaluations": sup.evaluations,
        "distinct_nontrivial": sup.nontrivial.len(),
        "rule": prop.rule(),
        "samples": sup.samples,
        "classes": sup.classes,
        "skipped_out_of_domain": sup.skipped,
        "excluded_known": sup.known_hits.iter().map(|(k, v)| (k.clone(), json!(v.0))).collect::<BTreeMap<_, _>>(),
        "replays_run": replayed,
        "workers": nworkers,
        "notes": sup.notes,
    });
    if let Some(e) = sup.exhaustive {
        coverage["exhaustive"] = json!(e);
    }
    for (k, v) in &sup.extra {
        coverage[k] = v.clone();
    }
    let ev = json!({
        "property_id": id,
        "tier": a.tier.name(),
        "seed": a.seed,
        "level": prop.level(),
        "coverage": coverage,
        "assumptions": prop.assumptions(),
        "wall_s": (wall * 100.0).round() / 100.0,
        "violations": violations.len(),
        "infra_errors": sup.infra_errors,
    });
    let evdir = root.join("evidence");
    let _ = fs::create_dir_all(&evdir);
    let tmp = evdir.join(format!(".{}.json.tmp", id));
    fs::write(&tmp, serde_json::to_string_pretty(&ev).unwrap()).unwrap();
    fs::rename(&tmp, evdir.join(format!("{}.json", id))).unwrap();
    let _ = fs::remove_dir_all(&run_dir);

    for l in &known_lines {
        println!("{}", l);
    }
    println!(
        "{} {}: {} cases, {} distinct non-trivial, {} known-finding signatures, {} violations, {:.1}s",
        id,
        a.tier.name(),
        sup.evaluations,
        sup.nontrivial.len(),
        sup.known_hits.len(),
        violations.len(),
        wall
    );
    if !violations.is_empty() {
        for (sig, path) in &violations {
            println!("VIOLATION property={} replay={}", id, path.display());
            eprintln!("  signature: {}", sig);
        }
        return 1;
    }
    if !sup.infra_errors.is_empty() {
        for e in &sup.infra_errors {
            eprintln!("INFRASTRUCTURE: {}", e);
        }
        return 2;
    }
    0
}

fn run_workers(prop: &dyn Prop, a: &RunArgs, run_dir: &Path, nworkers: usize, sup: &mut Sup) {
    let exe = std::env::current_exe().unwrap();
    let total = prop.cases(a.tier);
    let per_shard = (total + nworkers - 1) / nworkers;
    let nbatches = (per_shard + BATCH - 1) / BATCH;
    struct W {
        child: std::process::Child,
        shard: usize,
        out: PathBuf,
        inflight: PathBuf,
        errf: PathBuf,
        last_progress: Instant,
        last_size: u64,
        last_inflight: Vec<u8>,
    }
    let spawn = |shard: usize, first_batch: usize| -> W {
        let out = run_dir.join(format!("w{}.jsonl", shard));
        let inflight = run_dir.join(format!("w{}.inflight", shard));
        let errf = run_dir.join(format!("w{}.stderr", shard));
        let err = fs::OpenOptions::new().create(true).append(true).open(&errf).unwrap();
        let child = Command::new(&exe)
            .args([
                "worker",
                prop.id(),
                "--tier",
                a.tier.name(),
                "--seed",
                &a.seed.to_string(),
                "--shard",
                &shard.to_string(),
                "--nshards",
                &nworkers.to_string(),
                "--out",
                out.to_str().unwrap(),
                "--inflight",
                inflight.to_str().unwrap(),
                "--first-batch",
                &first_batch.to_string(),
            ])
            .stdin(Stdio::null())
            .stdout(Stdio::null())
            .stderr(Stdio::from(err))
            .spawn()
            .expect("spawn worker");
        W { child, shard, out, inflight, errf, last_progress: Instant::now(), last_size: 0, last_inflight: Vec::new() }
    };
    let mut ws: Vec<W> = (0..nworkers).map(|s| spawn(s, 0)).collect();
    let case_timeout = Duration::from_secs(prop.watchdog_secs(a.tier));
    let mut deaths = 0usize;
    let (mut hangs_tried, mut hangs_confirmed) = (0usize, 0usize);
    while !ws.is_empty() {
        std::thread::sleep(Duration::from_millis(20));
        let mut i = 0;
        while i < ws.len() {
            let w = &mut ws[i];
            let status = w.child.try_wait().ok().flatten();
            match status {
                Some(st) if st.success() => {
                    ws.swap_remove(i);
                    continue;
                }
                Some(st) => {
                    // the worker died: attribute to the in-flight case
                    deaths += 1;
                    let stderr_tail = fs::read_to_string(&w.errf).unwrap_or_default();
                    let stderr_tail: String = stderr_tail.chars().rev().take(600).collect::<String>().chars().rev().collect();
                    let ids = prop.identities();
                    let identity = ids[w.shard % ids.len()].clone();
                    let (batch, tape) = read_inflight(&w.inflight).unwrap_or((nbatches, vec![]));
                    let code = st.code();
                    let sig = match code {
                        Some(c) => format!("exit@{}:{}", c, first_words(&stderr_tail)),
                        None => format!("signal@{:?}", std::os::unix::process::ExitStatusExt::signal(&st)),
                    };
                    let detail = describe_via_subprocess(prop.id(), &tape, &identity, run_dir);
                    let traits: Vec<String> = detail.get("traits").and_then(|x| x.as_array()).map(|a| a.iter().filter_map(|x| x.as_str().map(|s| s.to_string())).collect()).unwrap_or_default();
                    sup.failures.push(json!({"signature": sig, "message": format!("worker process died ({:?}) while running this case; stderr: {}", st, stderr_tail),
                        "detail": detail, "traits": traits, "tape": tape_to_json(&tape), "identity": identity, "shard": w.shard, "batch": batch, "worker_death": true}));
                    let shard = w.shard;
                    ws.swap_remove(i);
                    if batch + 1 < nbatches && deaths < 40 {
                        ws.push(spawn(shard, batch + 1));
                    }
                    continue;
                }
                None => {
                    // watchdog: progress = out file grows or inflight changes
                    let size = fs::metadata(&w.out).map(|m| m.len()).unwrap_or(0);
                    let infl = fs::read(&w.inflight).unwrap_or_default();
                    if size != w.last_size || infl != w.last_inflight {
                        w.last_size = size;
                        w.last_inflight = infl;
                        w.last_progress = Instant::now();
                    } else if w.last_progress.elapsed() > case_timeout {
                        let _ = w.child.kill();
                        let _ = w.child.wait();
                        let (batch, tape) = read_inflight(&w.inflight).unwrap_or((nbatches, vec![]));
                        let mut confirmed_hang = false;
                        if prop.hang_is_violation() && !tape.is_empty() {
                            if hangs_confirmed > 0 {
                                // (one confirmed case is reported; further ones are not re-run)
                                confirmed_hang = true;
                            } else if hangs_tried < 3 {
                                hangs_tried += 1;
                                let ids = prop.identities();
                                let identity = ids[w.shard % ids.len()].clone();
                                let f = run_dir.join(format!("hang-{}-{}.json", w.shard, batch));
                                let _ = fs::write(&f, serde_json::to_string(&json!({"tape": tape_to_json(&tape), "identity": identity})).unwrap());
                                let (c1, s1, t1) = crate::fuzzdrv::replay_file(&prop.id(), &f, Duration::from_secs(90));
                                let t2 = t1 && crate::fuzzdrv::replay_file(&prop.id(), &f, Duration::from_secs(90)).2;
                                if !t1 && !matches!(c1, Some(0) | Some(2)) {
                                    // re-run in a fresh process (address space limited to 6 GB) the case ends in a
                                    // failure of its own or kills the process: runaway allocation, abort
                                    hangs_confirmed += 1;
                                    confirmed_hang = true;
                                    let sig = match c1 {
                                        Some(1) => s1.lines().find_map(|l| l.strip_prefix("SIGNATURE ")).unwrap_or("replay-failed").to_string(),
                                        other => format!("exit@{:?}:case-kills-the-process-when-re-run(6GB-address-space)", other),
                                    };
                                    let traits: Vec<String> = s1.lines().find_map(|l| l.strip_prefix("TRAITS ")).map(|l| l.split(',').filter(|x| !x.is_empty()).map(|x| x.to_string()).collect()).unwrap_or_default();
                                    sup.failures.push(json!({"signature": sig, "message": format!("a worker made no progress for {:?} on this case; re-run in a fresh process it fails as the signature says", case_timeout),
                                        "detail": {"replay_output": s1}, "traits": traits, "tape": tape_to_json(&tape), "identity": identity, "shard": w.shard, "batch": batch}));
                                } else if t1 && t2 {
                                    hangs_confirmed += 1;
                                    confirmed_hang = true;
                                    let detail = json!({"note": "the case is in the tape; `./check <id> --replay <this file>` re-runs it (it will not finish)"});
                                    sup.failures.push(json!({"signature": "hang:case-does-not-finish-within-90s", "message": format!("a worker made no progress for {:?} on this case; re-run twice in a fresh process, it did not finish within 90 s either time", case_timeout),
                                        "detail": detail, "traits": [], "tape": tape_to_json(&tape), "identity": identity, "shard": w.shard, "batch": batch}));
                                }
                            }
                        }
                        if !confirmed_hang {
                            sup.infra_errors.push(format!(
                                "watchdog: worker {} made no progress for {:?} in batch {} (tape of {} values saved in evidence notes)",
                                w.shard,
                                case_timeout,
                                batch,
                                tape.len()
                            ));
                        }
                        sup.extra.insert(format!("hang_tape_shard{}", w.shard), tape_to_json(&tape));
                        let shard = w.shard;
                        ws.swap_remove(i);
                        if batch + 1 < nbatches && deaths < 40 {
                            deaths += 1;
                            ws.push(spawn(shard, batch + 1));
                        }
                        continue;
                    }
                }
            }
            i += 1;
        }
    }
    // merge
    for s in 0..nworkers {
        let out = run_dir.join(format!("w{}.jsonl", s));
        if let Ok(txt) = fs::read_to_string(&out) {
            for l in txt.lines() {
                if let Ok(v) = serde_json::from_str::<Value>(l) {
                    absorb_line(sup, &v);
                }
            }
        }
    }
}

fn describe_via_subprocess(id: &str, tape: &[u32], identity: &[String], run_dir: &Path) -> Value {
    let f = run_dir.join(format!("describe-{}.json", fnv(&tape.iter().flat_map(|v| v.to_le_bytes()).collect::<Vec<u8>>())));
    let _ = fs::write(&f, serde_json::to_string(&json!({"tape": tape_to_json(tape), "identity": identity})).unwrap());
    let o = Command::new(std::env::current_exe().unwrap()).args(["describe", id, f.to_str().unwrap()]).stdin(Stdio::null()).output();
    match o {
        Ok(o) if o.status.success() => serde_json::from_slice(&o.stdout).unwrap_or(Value::Null),
        _ => Value::Null,
    }
}

pub fn describe_main(prop: &dyn Prop, file: &Path) -> i32 {
    let v: Value = fs::read_to_string(file).ok().and_then(|s| serde_json::from_str(&s).ok()).unwrap_or(Value::Null);
    let identity: Vec<String> = v["identity"].as_array().map(|a| a.iter().map(|x| x.as_str().unwrap_or("").to_string()).collect()).unwrap_or_else(|| prop.identities()[0].clone());
    let scratch = verif_root().join("target/scratch");
    let mut ctx = Ctx::new(Tier::Quick, 0, identity, scratch, 98);
    ctx.replay = true;
    let mut tape = Tape::new(tape_from_json(&v["tape"]));
    println!("{}", serde_json::to_string(&prop.describe(&mut tape, &mut ctx)).unwrap());
    0
}

fn first_words(s: &str) -> String {
    let l = s.lines().rev().find(|l| !l.trim().is_empty()).unwrap_or("");
    let l: String = l.chars().take(60).collect();
    l.chars().map(|c| if c.is_ascii_digit() { '#' } else { c }).collect()
}

// ---------------------------------------------------------------------------------------------
// replay

pub fn replay_main(prop: &dyn Prop, file: &Path, quiet: bool) -> i32 {
    install_panic_hook();
    crate::exittrap::capture_stderr();
    let txt = match fs::read_to_string(file) {
        Ok(t) => t,
        Err(e) => {
            eprintln!("cannot read {}: {}", file.display(), e);
            return 2;
        }
    };
    let v: Value = match serde_json::from_str(&txt) {
        Ok(v) => v,
        Err(e) => {
            eprintln!("bad replay file: {}", e);
            return 2;
        }
    };
    let identity: Vec<String> = v["identity"].as_array().map(|a| a.iter().map(|x| x.as_str().unwrap_or("").to_string()).collect()).unwrap_or_else(|| prop.identities()[0].clone());
    apply_identity(&identity);
    let scratch = verif_root().join("target/scratch");
    let _ = fs::create_dir_all(&scratch);
    let mut ctx = Ctx::new(Tier::Quick, 0, identity, scratch, 99);
    ctx.replay = true;
    ctx.strict = true;
    let tape_v = tape_from_json(&v["tape"]);
    let mut tape = Tape::new(tape_v);
    let verdict = if v["tape"].is_null() && !v["case"].is_null() {
        match prop.replay_supervisor_case(&v["case"]) {
            Some(v) => v,
            None => {
                eprintln!("{} records a case of the supervisor phase (real binary) that cannot be replayed on its own; re-run the check", file.display());
                return 2;
            }
        }
    } else {
        match guarded(|| prop.check(&mut tape, &mut ctx)) {
            Ok(v) => v,
            Err(p) => Verdict::Fail(p.failure()),
        }
    };
    restore_stdout();
    match verdict {
        Verdict::Pass | Verdict::Skip(_) => {
            if !quiet {
                println!("replay {}: property holds on this case", file.display());
            }
            0
        }
        Verdict::Fail(f) => {
            println!("SIGNATURE {}", f.signature);
            println!("TRAITS {}", f.traits.join(","));
            if !quiet {
                println!("{}", f.message);
                println!("{}", serde_json::to_string_pretty(&f.detail).unwrap_or_default());
                println!("VIOLATION property={} replay={}", prop.id(), file.display());
            }
            1
        }
    }
}

// ---------------------------------------------------------------------------------------------
// generic tape shrinking (used for failures found by the coverage-guided tier, which does not
// shrink by itself): shorter tape, then smaller values, while the failure keeps its signature

pub fn shrink_main(prop: &dyn Prop, file: &Path) -> i32 {
    install_panic_hook();
    crate::exittrap::capture_stderr();
    let v: Value = match fs::read_to_string(file).ok().and_then(|s| serde_json::from_str(&s).ok()) {
        Some(v) => v,
        None => return 2,
    };
    let identity: Vec<String> = v["identity"].as_array().map(|a| a.iter().map(|x| x.as_str().unwrap_or("").to_string()).collect()).unwrap_or_else(|| prop.identities()[0].clone());
    apply_identity(&identity);
    let scratch = verif_root().join("target/scratch");
    let _ = fs::create_dir_all(&scratch);
    let mut ctx = Ctx::new(Tier::Quick, 0, identity.clone(), scratch, 95);
    ctx.replay = true;
    ctx.strict = true;
    let mut tape = tape_from_json(&v["tape"]);
    let mut run = |t: &[u32], ctx: &mut Ctx| -> Option<String> {
        let mut tp = Tape::new(t.to_vec());
        match guarded(|| prop.check(&mut tp, ctx)) {
            Ok(Verdict::Fail(f)) => Some(f.signature),
            Ok(_) => None,
            Err(p) => Some(p.failure().signature),
        }
    };
    let want = match run(&tape, &mut ctx) {
        Some(s) => s,
        None => {
            restore_stdout();
            println!("{}", json!({"tape": tape_to_json(&tape), "reproduced": false}));
            return 0;
        }
    };
    let t0 = Instant::now();
    let mut evals = 0usize;
    let budget = 6000usize;
    let mut ok = |t: &[u32], ctx: &mut Ctx, evals: &mut usize| -> bool {
        if *evals >= budget || t0.elapsed() > Duration::from_secs(120) {
            return false;
        }
        *evals += 1;
        run(t, ctx).as_deref() == Some(want.as_str())
    };
    // 1. cut the tail (an exhausted tape reads as zeros = simplest choices)
    let (mut lo, mut hi) = (0usize, tape.len());
    while lo < hi {
        let mid = (lo + hi) / 2;
        if ok(&tape[..mid], &mut ctx, &mut evals) {
            hi = mid;
        } else {
            lo = mid + 1;
        }
    }
    if hi < tape.len() && ok(&tape[..hi], &mut ctx, &mut evals) {
        tape.truncate(hi);
    }
    // 2. zero chunks, then single values; 3. delete chunks; 4. halve values
    let mut chunk = (tape.len() / 2).max(1);
    while chunk >= 1 {
        let mut i = 0;
        while i < tape.len() {
            let end = (i + chunk).min(tape.len());
            if tape[i..end].iter().any(|x| *x != 0) {
                let mut c = tape.clone();
                for x in &mut c[i..end] {
                    *x = 0;
                }
                if ok(&c, &mut ctx, &mut evals) {
                    tape = c;
                }
            }
            i = end;
        }
        if chunk == 1 {
            break;
        }
        chunk /= 2;
    }
    let mut chunk = (tape.len() / 4).max(1);
    while chunk >= 1 {
        let mut i = 0;
        while i + chunk <= tape.len() {
            let mut c = tape.clone();
            c.drain(i..i + chunk);
            if ok(&c, &mut ctx, &mut evals) {
                tape = c;
            } else {
                i += chunk;
            }
        }
        if chunk == 1 {
            break;
        }
        chunk /= 2;
    }
    for _round in 0..6 {
        let mut changed = false;
        for i in 0..tape.len() {
            if tape[i] == 0 {
                continue;
            }
            let mut c = tape.clone();
            c[i] /= 2;
            if ok(&c, &mut ctx, &mut evals) {
                tape = c;
                changed = true;
            }
        }
        if !changed {
            break;
        }
    }
    while tape.last() == Some(&0) {
        tape.pop();
    }
    restore_stdout();
    println!("{}", json!({"tape": tape_to_json(&tape), "reproduced": true, "signature": want, "evaluations": evals}));
    0
}
