//! The choice tape: every generator draws bounded choices from a sequence of u32s supplied by
//! proptest (or by libFuzzer bytes, or by an enumerating driver).  An exhausted tape yields 0 and
//! every generator is written so that 0 is the simplest choice; indices are mapped monotonically
//! (v*n >> 32), never with `%`, so that shrinking the tape shrinks the case.

#[derive(Clone, Debug)]
pub struct Tape {
    data: Vec<u32>,
    pos: usize,
}

impl Tape {
    pub fn new(data: Vec<u32>) -> Self {
        Tape { data, pos: 0 }
    }
    pub fn from_bytes(b: &[u8]) -> Self {
        let mut data = Vec::with_capacity(b.len() / 4 + 1);
        for c in b.chunks(4) {
            let mut x = [0u8; 4];
            x[..c.len()].copy_from_slice(c);
            data.push(u32::from_le_bytes(x));
        }
        Tape { data, pos: 0 }
    }
    pub fn data(&self) -> &[u32] {
        &self.data
    }
    pub fn used(&self) -> usize {
        self.pos.min(self.data.len())
    }
    pub fn exhausted(&self) -> bool {
        self.pos >= self.data.len()
    }
    #[inline]
    pub fn raw(&mut self) -> u32 {
        let v = self.data.get(self.pos).copied().unwrap_or(0);
        self.pos += 1;
        v
    }
    /// uniform-ish in 0..n, monotone in the tape value; n == 0 gives 0
    #[inline]
    pub fn below(&mut self, n: usize) -> usize {
        if n <= 1 {
            // still consume, so that the tape layout does not depend on n
            self.raw();
            return 0;
        }
        ((self.raw() as u64 * n as u64) >> 32) as usize
    }
    /// inclusive range
    #[inline]
    pub fn range(&mut self, lo: usize, hi: usize) -> usize {
        debug_assert!(hi >= lo);
        lo + self.below(hi - lo + 1)
    }
    /// true with probability num/den; 0 on the tape is always false
    #[inline]
    pub fn chance(&mut self, num: u32, den: u32) -> bool {
        let v = self.raw() as u64;
        // v in the top num/den fraction  => true  (so that 0 => false)
        v * (den as u64) >= ((den - num) as u64) << 32
    }
    pub fn coin(&mut self) -> bool {
        self.chance(1, 2)
    }
    /// weighted index; index 0 is the "simplest"
    pub fn weighted(&mut self, w: &[u32]) -> usize {
        let total: u64 = w.iter().map(|x| *x as u64).sum();
        if total == 0 {
            self.raw();
            return 0;
        }
        let x = (self.raw() as u64 * total) >> 32;
        let mut acc = 0u64;
        for (i, wi) in w.iter().enumerate() {
            acc += *wi as u64;
            if x < acc {
                return i;
            }
        }
        w.len() - 1
    }
    pub fn pick<'a, T>(&mut self, xs: &'a [T]) -> &'a T {
        let i = self.below(xs.len());
        &xs[i]
    }
    pub fn ps<'a>(&mut self, xs: &[&'a str]) -> &'a str {
        let i = self.below(xs.len());
        xs[i]
    }
    /// everything not yet consumed, as bytes (little endian, as `from_bytes` packed them); consumes
    /// the tape.  Used by the raw decoders of the coverage-guided tier.
    pub fn rest_bytes(&mut self) -> Vec<u8> {
        let mut v = Vec::new();
        while self.pos < self.data.len() {
            v.extend_from_slice(&self.data[self.pos].to_le_bytes());
            self.pos += 1;
        }
        v
    }
    /// a fresh sub-tape whose consumption does not shift the parent's layout: takes `n` values.
    pub fn fork(&mut self, n: usize) -> Tape {
        let mut d = Vec::with_capacity(n);
        for _ in 0..n {
            d.push(self.raw());
        }
        Tape::new(d)
    }
}

/// FNV-1a 64 — used for case fingerprints (no dependence on std's randomly keyed hasher).
pub fn fnv(bytes: &[u8]) -> u64 {
    let mut h: u64 = 0xcbf29ce484222325;
    for b in bytes {
        h ^= *b as u64;
        h = h.wrapping_mul(0x100000001b3);
    }
    h
}
pub fn fnv_add(h: u64, bytes: &[u8]) -> u64 {
    let mut h = h;
    for b in bytes {
        h ^= *b as u64;
        h = h.wrapping_mul(0x100000001b3);
    }
    h
}
