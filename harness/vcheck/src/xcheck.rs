//! Binary cross-check (DESIGN §2.1): a sample of in-process cases is replayed through the real
//! binary under a launcher that fixes the calling-process identity; stdout must be identical.
//! For C03 the binary's exit status / stderr are judged too.
use std::time::Duration;

use serde_json::{json, Value};

use crate::exec::{self, BinRun};
use crate::runner::{Failure, Sup};
use crate::tape::fnv;

pub fn parent_for_identity(identity: &[String]) -> Vec<String> {
    // neutral identity: a `git` parent with an unparsed subcommand => detection stops at it and
    // reports "none" (DESIGN §2.7); otherwise the identity argv itself
    if identity.len() >= 2 && identity[0] == "git" && identity[1] == "diff" && identity.len() == 2 {
        vec!["git".to_string(), "verif-neutral".to_string()]
    } else {
        identity.to_vec()
    }
}

pub fn binary_crosscheck(sup: &mut Sup, judge_exit: bool) {
    let delta = sup.delta_bin();
    if !delta.exists() {
        sup.infra_errors.push(format!("real binary {} missing", delta.display()));
        return;
    }
    let stub_dir = sup.scratch().join(format!("stubs-{}", std::process::id()));
    let _ = std::fs::create_dir_all(stub_dir.join("home"));
    let xs = sup.xchecks.clone();
    let mut n = 0u64;
    let mut agree = 0u64;
    for x in xs.iter() {
        let identity: Vec<String> = x["identity"].as_array().map(|a| a.iter().map(|s| s.as_str().unwrap_or("").to_string()).collect()).unwrap_or_default();
        let args: Vec<String> = x["argv"].as_array().map(|a| a.iter().map(|s| s.as_str().unwrap_or("").to_string()).collect()).unwrap_or_default();
        let env: Vec<(String, String)> = x["env"].as_array().map(|a| a.iter().filter_map(|p| Some((p[0].as_str()?.to_string(), p[1].as_str()?.to_string()))).collect()).unwrap_or_default();
        let input = exec::unhex(x["input_hex"].as_str().unwrap_or(""));
        let cwd = x["cwd"].as_str().map(std::path::PathBuf::from).filter(|p| p.is_dir());
        if x["cwd"].is_string() && cwd.is_none() {
            continue; // the generated working directory does not exist on disk: in-process only
        }
        let r = BinRun {
            delta: &delta,
            parent: parent_for_identity(&identity),
            args,
            env,
            cwd,
            stdin: input.clone(),
            timeout: Duration::from_secs(30),
            stub_dir: stub_dir.clone(),
        };
        let out = match exec::run_bin(&r) {
            Ok(o) => o,
            Err(e) => {
                sup.infra_errors.push(format!("cannot run binary: {}", e));
                break;
            }
        };
        n += 1;
        let stderr = String::from_utf8_lossy(&out.stderr).to_string();
        if out.timed_out {
            // inconclusive (a loaded machine, or a legitimately expensive case): counted, not judged
            *sup.notes.entry("binary_crosscheck_timeouts".to_string()).or_insert(0) += 1;
            continue;
        }
        if judge_exit && (out.status != Some(0) || stderr.contains("panicked at")) {
            sup.fail(
                Failure::new(format!("binary-exit@{:?}:{}", out.status, first_line(&stderr)), format!("real binary exited with {:?}/{:?}; stderr: {}", out.status, out.signal, stderr)),
                x.clone(),
            );
            continue;
        }
        let h = format!("{:016x}", fnv(&out.stdout));
        if Some(h.as_str()) == x["out_hash"].as_str() {
            agree += 1;
        } else if out.status == Some(0) {
            sup.infra_errors.push(format!(
                "harness artefact: binary and in-process output differ (identity {:?}); in-process hash {}, binary hash {}; case saved under coverage.xcheck_mismatch_case in the evidence file",
                identity, x["out_hash"], h
            ));
            sup.extra.insert("xcheck_mismatch_case".into(), x.clone());
        }
    }
    let _ = std::fs::remove_dir_all(&stub_dir);
    sup.extra.insert("binary_crosscheck".into(), json!({"cases": n, "identical_stdout": agree}));
}

/// Cross-process determinism: the same case run twice as separate processes of the real binary
/// (different hash seeds) must give identical bytes; also for --show-config.
pub fn binary_determinism(sup: &mut Sup) {
    let delta = sup.delta_bin();
    if !delta.exists() {
        return;
    }
    let stub_dir = sup.scratch().join(format!("stubs-det-{}", std::process::id()));
    let _ = std::fs::create_dir_all(stub_dir.join("home"));
    let xs = sup.xchecks.clone();
    let mut pairs = 0u64;
    for x in xs.iter().take(40) {
        let identity: Vec<String> = x["identity"].as_array().map(|a| a.iter().map(|s| s.as_str().unwrap_or("").to_string()).collect()).unwrap_or_default();
        let args: Vec<String> = x["argv"].as_array().map(|a| a.iter().map(|s| s.as_str().unwrap_or("").to_string()).collect()).unwrap_or_default();
        let env: Vec<(String, String)> = x["env"].as_array().map(|a| a.iter().filter_map(|p| Some((p[0].as_str()?.to_string(), p[1].as_str()?.to_string()))).collect()).unwrap_or_default();
        if x["cwd"].is_string() {
            continue;
        }
        let input = exec::unhex(x["input_hex"].as_str().unwrap_or(""));
        for show_config in [false, true] {
            let mut a = args.clone();
            if show_config {
                a.push("--show-config".to_string());
            }
            let mut outs = Vec::new();
            for _ in 0..2 {
                let r = BinRun { delta: &delta, parent: parent_for_identity(&identity), args: a.clone(), env: env.clone(), cwd: None, stdin: input.clone(), timeout: Duration::from_secs(30), stub_dir: stub_dir.clone() };
                match exec::run_bin(&r) {
                    Ok(o) => outs.push(o.stdout),
                    Err(e) => {
                        sup.infra_errors.push(format!("cannot run binary: {}", e));
                        return;
                    }
                }
            }
            pairs += 1;
            if outs[0] != outs[1] {
                let sa = String::from_utf8_lossy(&outs[0]).to_string();
                let sb = String::from_utf8_lossy(&outs[1]).to_string();
                let l = sa.lines().zip(sb.lines()).find(|(p, q)| p != q).map(|(p, q)| format!("`{}` vs `{}`", p.trim(), q.trim())).unwrap_or_default();
                sup.fail(
                    Failure::new(if show_config { "C10:nondeterministic-show-config" } else { "C10:nondeterministic-render" }, format!("two processes of the real binary given the same input, options and environment wrote different bytes: {}", exec::printable(l.as_bytes()))),
                    x.clone(),
                );
            }
        }
    }
    let _ = std::fs::remove_dir_all(&stub_dir);
    sup.extra.insert("binary_determinism_pairs".into(), json!(pairs));
}

fn first_line(s: &str) -> String {
    let l = s.lines().find(|l| l.contains("panicked")).or_else(|| s.lines().next()).unwrap_or("");
    let l: String = l.chars().take(70).collect();
    l.chars().map(|c| if c.is_ascii_digit() { '#' } else { c }).collect()
}

#[allow(dead_code)]
fn _u(_: Value) {}
