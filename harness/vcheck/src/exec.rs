//! Running delta: in-process (through dut::verif_api) and as the real binary.
use std::fs;
use std::io::Write;
use std::path::{Path, PathBuf};
use std::process::{Command, Stdio};
use std::time::{Duration, Instant};

use dut::verif_api as api;
use serde_json::{json, Value};

use crate::gen::config::Cfg;
use crate::runner::{guarded, Ctx, Failure};

/// Build a session for `cfg` (writing its gitconfig, if any, to the worker's scratch file).
pub fn session(cfg: &Cfg, ctx: &Ctx) -> Result<api::Session, Failure> {
    let path = ctx.gitconfig_path();
    if let Some(g) = &cfg.gitconfig {
        fs::write(&path, g).expect("write gitconfig");
    }
    let args = cfg.args(Some(&path));
    guarded(|| api::build(&args, &cfg.env)).map_err(|p| {
        let mut f = p.failure();
        f.message = format!("while building the configuration: {}", f.message);
        f
    })
}

pub fn run(sess: &api::Session, input: &[u8]) -> Result<Vec<u8>, Failure> {
    match guarded(|| sess.run(input)) {
        Ok(Ok(out)) => Ok(out),
        Ok(Err(e)) => Err(Failure::new(format!("io-error:{:?}", e.kind()), format!("delta() returned an I/O error on an in-memory writer: {}", e))),
        Err(p) => Err(p.failure()),
    }
}

pub fn run_cfg(cfg: &Cfg, ctx: &Ctx, input: &[u8]) -> Result<Vec<u8>, Failure> {
    let s = session(cfg, ctx)?;
    run(&s, input)
}

pub fn printable(bytes: &[u8]) -> String {
    let s = String::from_utf8_lossy(bytes);
    let mut out = String::new();
    for c in s.chars() {
        match c {
            '\x1b' => out.push_str("␛"),
            '\t' => out.push_str("→"),
            '\r' => out.push_str("␍"),
            '\n' => out.push('\n'),
            c if (c as u32) < 0x20 => out.push_str(&format!("^{}", ((c as u8) + 64) as char)),
            c => out.push(c),
        }
    }
    out
}

pub fn hex(bytes: &[u8]) -> String {
    let mut s = String::with_capacity(bytes.len() * 2);
    for b in bytes {
        s.push_str(&format!("{:02x}", b));
    }
    s
}
pub fn unhex(s: &str) -> Vec<u8> {
    (0..s.len() / 2).map(|i| u8::from_str_radix(&s[2 * i..2 * i + 2], 16).unwrap_or(0)).collect()
}

pub fn case_json(cfg: &Cfg, input: &[u8]) -> Value {
    let shown = if input.len() > 6000 { &input[..6000] } else { input };
    json!({
        "argv": cfg.args(Some("<gitconfig>")),
        "gitconfig": cfg.gitconfig,
        "env": format!("{:?}", cfg.env),
        "input_printable": printable(shown),
        "input_hex": if input.len() <= 20000 { Value::String(hex(input)) } else { Value::Null },
        "input_len": input.len(),
    })
}

// ---------------------------------------------------------------------------------------------
// the real binary

pub struct BinOut {
    pub status: Option<i32>,
    pub signal: Option<i32>,
    pub stdout: Vec<u8>,
    pub stderr: Vec<u8>,
    pub timed_out: bool,
    pub wall: Duration,
}

pub struct BinRun<'a> {
    pub delta: &'a Path,
    /// argv of the parent process to run delta under (e.g. ["git","verif-neutral"]); the stub
    /// launcher is installed under the basename of argv[0]
    pub parent: Vec<String>,
    pub args: Vec<String>,
    pub env: Vec<(String, String)>,
    pub cwd: Option<PathBuf>,
    pub stdin: Vec<u8>,
    pub timeout: Duration,
    pub stub_dir: PathBuf,
}

pub fn env_from_spec(e: &api::EnvSpec) -> Vec<(String, String)> {
    let mut v = Vec::new();
    let mut add = |k: &str, x: &Option<String>| {
        if let Some(x) = x {
            v.push((k.to_string(), x.clone()));
        }
    };
    add("BAT_THEME", &e.bat_theme);
    add("COLORTERM", &e.colorterm);
    add("DELTA_FEATURES", &e.features);
    add("GIT_CONFIG_PARAMETERS", &e.git_config_parameters);
    add("GIT_PREFIX", &e.git_prefix);
    add("DELTA_NAVIGATE", &e.navigate);
    add("DELTA_PAGER", &e.delta_pager);
    add("PAGER", &e.pager);
    add("DELTA_EXPERIMENTAL_MAX_LINE_DISTANCE_FOR_NAIVELY_PAIRED_LINES", &e.max_line_distance_naive);
    v
}

/// Ensure the launcher stub exists under `name` in `stub_dir`; returns its path.
pub fn stub_path(stub_dir: &Path, name: &str) -> PathBuf {
    let p = stub_dir.join(name);
    if !p.exists() {
        let _ = fs::create_dir_all(stub_dir);
        let src = crate::runner::verif_root().join("target/stubtool");
        let _ = fs::hard_link(&src, &p).or_else(|_| fs::copy(&src, &p).map(|_| ()));
    }
    p
}

pub fn run_bin(r: &BinRun) -> std::io::Result<BinOut> {
    let t0 = Instant::now();
    let mut cmd;
    if r.parent.is_empty() {
        cmd = Command::new(r.delta);
        cmd.args(&r.args);
    } else {
        let name = Path::new(&r.parent[0]).file_name().unwrap().to_string_lossy().to_string();
        let stub = stub_path(&r.stub_dir, &name);
        cmd = Command::new(stub);
        cmd.args(&r.parent[1..]);
        cmd.env("STUBTOOL_EXEC", r.delta);
        cmd.env("STUBTOOL_EXEC_ARGS", serde_json::to_string(&r.args).unwrap());
    }
    cmd.env_clear();
    cmd.env("PATH", format!("{}:/usr/bin:/bin", r.stub_dir.display()));
    cmd.env("HOME", r.stub_dir.join("home"));
    cmd.env("XDG_CONFIG_HOME", r.stub_dir.join("home/.config"));
    cmd.env("GIT_CONFIG_NOSYSTEM", "1");
    cmd.env("TERM", "xterm-256color");
    if !r.parent.is_empty() {
        cmd.env("STUBTOOL_EXEC", r.delta);
        cmd.env("STUBTOOL_EXEC_ARGS", serde_json::to_string(&r.args).unwrap());
    }
    for (k, v) in &r.env {
        cmd.env(k, v);
    }
    if let Some(c) = &r.cwd {
        cmd.current_dir(c);
    }
    cmd.stdin(Stdio::piped()).stdout(Stdio::piped()).stderr(Stdio::piped());
    // own process group: on timeout the launcher AND delta (its child) are killed
    std::os::unix::process::CommandExt::process_group(&mut cmd, 0);
    let mut child = cmd.spawn()?;
    let mut stdin = child.stdin.take().unwrap();
    let input = r.stdin.clone();
    let writer = std::thread::spawn(move || {
        let _ = stdin.write_all(&input);
    });
    let mut so = child.stdout.take().unwrap();
    let mut se = child.stderr.take().unwrap();
    let t_out = std::thread::spawn(move || {
        let mut b = Vec::new();
        let _ = std::io::Read::read_to_end(&mut so, &mut b);
        b
    });
    let t_err = std::thread::spawn(move || {
        let mut b = Vec::new();
        let _ = std::io::Read::read_to_end(&mut se, &mut b);
        b
    });
    let mut timed_out = false;
    let status = loop {
        if let Some(st) = child.try_wait()? {
            break st;
        }
        if t0.elapsed() > r.timeout {
            timed_out = true;
            unsafe {
                libc::kill(-(child.id() as i32), libc::SIGKILL);
            }
            let _ = child.kill();
            break child.wait()?;
        }
        std::thread::sleep(Duration::from_millis(2));
    };
    let _ = writer.join();
    let stdout = t_out.join().unwrap_or_default();
    let stderr = t_err.join().unwrap_or_default();
    Ok(BinOut {
        status: status.code(),
        signal: std::os::unix::process::ExitStatusExt::signal(&status),
        stdout,
        stderr,
        timed_out,
        wall: t0.elapsed(),
    })
}
