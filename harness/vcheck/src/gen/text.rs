//! Line contents, identifiers and paths (DESIGN §2.6).
use crate::tape::Tape;

pub const IDENTS: &[&str] = &[
    "x", "foo", "bar", "baz", "self", "config", "line", "state", "value", "result", "i", "n",
    "width", "painter", "String", "Vec", "Option", "len", "push", "main", "args", "tmp", "data",
    "index", "alpha", "beta", "gamma", "delta", "omega", "count", "item", "node", "left", "right",
];
pub const KEYWORDS: &[&str] = &[
    "fn", "let", "mut", "if", "else", "return", "for", "in", "while", "def", "class", "import",
    "pub", "use", "struct", "impl", "match", "int", "void", "static", "const", "var", "function",
    "echo", "then", "fi", "do", "done", "true", "false", "None", "null",
];
pub const PUNCT: &[&str] = &[
    "(", ")", "{", "}", "[", "]", ";", ",", ".", "::", "->", "=>", "=", "==", "+", "-", "*", "/",
    "&", "|", "!", "<", ">", ":", "#", "\"", "'", "//", "/*", "*/", "$", "@", "%", "^", "~", "?",
];
pub const WIDE: &[&str] = &["世", "界", "日本語", "한글", "漢字", "，", "（", "）", "ｗｉｄｅ"];
pub const COMBINING: &[&str] = &["e\u{301}", "a\u{308}", "n\u{303}", "o\u{302}\u{323}", "ก็"];
pub const EMOJI: &[&str] = &["😀", "✓", "→", "…", "⋮", "│", "🎉"];
/// grapheme clusters made of several characters of non-zero width (emoji modifier / ZWJ /
/// flag sequences, conjuncts): their cluster width differs from the sum of their parts
pub const COMPOSITE: &[&str] = &["👍🏽", "👨\u{200d}👩\u{200d}👧", "🇩🇪", "❤\u{fe0f}", "क्षि"];
pub const RTL: &[&str] = &["שלום", "مرحبا", "א"];
// (the last four change their UTF-8 length under case mapping: Ω→ω, K→k, İ→i̇, ẞ→ß)
pub const OTHER_UNI: &[&str] = &["é", "ß", "λ", "Ж", "ø", "ñ", "ü", "\u{a0}", "\u{200b}", "ﬁ", "™", "\u{2126}", "\u{212a}", "\u{130}", "\u{1e9e}"];
pub const MARKERLIKE: &[&str] = &[
    "- x", "-- x", "-- a/foo.rs", "-", "--", "---", "+", "++", "+++", "++ b/foo.rs", "+ y",
    "@@ a @@", "@@ -1,2 +1,2 @@", "@@", "\\", "\\ No newline at end of file", "diff x", "diff --git a/q b/q",
    "commit deadbeef", "index 123..456", "Binary files a and b differ", "rename from x",
    "old mode 100644", "<<<<<<< HEAD", "=======", ">>>>>>> other", "Submodule x", "{\"type\":1}",
    "# comment", "// -- note", "* bullet", "similarity index 90%", "new file mode 100644",
    "Only in x: y", "--- a", "+++ b", "Subproject commit abc", "\u{301}x y", "\u{fe0f} z", "\u{200d}w", "\u{308}", "Subproject commit 0123456789012345678901234567890123456789-dirty x",
    // (an empty list item / the mail signature separator: as a removed line it reads `-- `)
    "- ", "-- ", "+ ",
];

pub fn ident(t: &mut Tape) -> String {
    match t.weighted(&[10, 3, 1]) {
        0 => t.pick(IDENTS).to_string(),
        1 => format!("{}_{}", t.pick(IDENTS), t.below(100)),
        _ => format!("{}{}", t.pick(IDENTS), t.pick(&["é", "λ", "世", "ß"])),
    }
}

#[derive(Clone, Copy, Debug, Default)]
pub struct TextOpts {
    pub allow_tabs: bool,
    pub allow_unicode: bool,
    pub allow_markerlike: bool,
    pub allow_trailing_ws: bool,
    pub allow_long: bool,
    pub allow_composite: bool,
    /// upper bound for "long" lines, in tokens
    pub long_tokens: usize,
}

impl TextOpts {
    pub fn all() -> Self {
        TextOpts {
            allow_tabs: true,
            allow_unicode: true,
            allow_markerlike: true,
            allow_trailing_ws: true,
            allow_long: true,
            allow_composite: false,
            long_tokens: 60,
        }
    }
    pub fn ascii_code() -> Self {
        TextOpts {
            long_tokens: 30,
            ..Default::default()
        }
    }
}

pub fn token(t: &mut Tape, o: &TextOpts) -> String {
    let uni = if o.allow_unicode { 1 } else { 0 };
    let comp = if o.allow_composite { 2 } else { 0 };
    match t.weighted(&[10, 5, 6, 2, 2 * uni, uni, uni, uni, 2 * uni, comp]) {
        0 => ident(t),
        1 => t.pick(KEYWORDS).to_string(),
        2 => t.pick(PUNCT).to_string(),
        3 => t.below(100000).to_string(),
        4 => t.pick(WIDE).to_string(),
        5 => t.pick(COMBINING).to_string(),
        6 => t.pick(EMOJI).to_string(),
        7 => t.pick(RTL).to_string(),
        8 => t.pick(OTHER_UNI).to_string(),
        _ => t.pick(COMPOSITE).to_string(),
    }
}

/// A code-ish line: tokens joined by single blanks or nothing.
pub fn code_tokens(t: &mut Tape, n: usize, o: &TextOpts) -> String {
    let mut s = String::new();
    for i in 0..n {
        if i > 0 {
            match t.weighted(&[6, 3, 1]) {
                0 => s.push(' '),
                1 => {}
                _ => s.push_str("  "),
            }
        }
        s.push_str(&token(t, o));
    }
    s
}

pub fn indent(t: &mut Tape, o: &TextOpts) -> String {
    let tabs = if o.allow_tabs { 2 } else { 0 };
    match t.weighted(&[6, 3, tabs, 1, tabs / 2]) {
        0 => String::new(),
        1 => " ".repeat(t.range(1, 8)),
        2 => "\t".repeat(t.range(1, 3)),
        3 => " ".repeat(t.range(9, 20)),
        _ => format!(" \t{}", " ".repeat(t.below(3))),
    }
}

/// Content of one hunk line (without the marker column).
pub fn content(t: &mut Tape, o: &TextOpts) -> String {
    let ml = if o.allow_markerlike { 3 } else { 0 };
    let long = if o.allow_long { 2 } else { 0 };
    let tabs = if o.allow_tabs { 2 } else { 0 };
    match t.weighted(&[12, 2, ml, long, tabs, 1]) {
        0 => {
            let n = t.range(1, 7);
            let mut s = indent(t, o);
            s.push_str(&code_tokens(t, n, o));
            if o.allow_trailing_ws && t.chance(1, 12) {
                s.push_str(*t.pick(&[" ", "  ", "\t", " \t "]));
            }
            s
        }
        1 => String::new(),
        2 => {
            let mut s = t.pick(MARKERLIKE).to_string();
            if t.chance(1, 3) {
                s.push(' ');
                s.push_str(&ident(t));
            }
            s
        }
        3 => {
            let n = t.range(8, o.long_tokens.max(9));
            let mut s = indent(t, o);
            s.push_str(&code_tokens(t, n, o));
            s
        }
        4 => {
            // inner tabs
            let a = token(t, o);
            let b = token(t, o);
            format!("{}\t{}\t\t{}", a, b, ident(t))
        }
        _ => " ".repeat(t.range(1, 5)), // whitespace only
    }
}

/// derive a "modified" version of a line (for paired minus/plus lines)
pub fn mutate_line(t: &mut Tape, line: &str, o: &TextOpts) -> String {
    let words: Vec<&str> = line.split(' ').collect();
    if words.is_empty() || line.is_empty() {
        return content(t, o);
    }
    let mut w: Vec<String> = words.iter().map(|s| s.to_string()).collect();
    match t.weighted(&[5, 3, 3, 1, 1]) {
        0 => {
            let i = t.below(w.len());
            w[i] = token(t, o);
        }
        1 => {
            let i = t.below(w.len() + 1);
            w.insert(i, token(t, o));
        }
        2 => {
            if w.len() > 1 {
                let i = t.below(w.len());
                w.remove(i);
            } else {
                w.push(token(t, o));
            }
        }
        3 => {
            // whitespace-only change
            let i = t.below(w.len());
            w[i] = format!(" {}", w[i]);
        }
        _ => return content(t, o),
    }
    w.join(" ")
}

pub const EXTS: &[&str] = &[
    "rs", "py", "c", "js", "sh", "toml", "md", "txt", "go", "java", "h", "cpp", "json", "yml",
    "html", "css", "lua", "rb",
];
pub const NOEXT_NAMES: &[&str] = &["Makefile", "Dockerfile", "README", "LICENSE", "Rakefile", "a", "rs", "conf"];
pub const DIRS: &[&str] = &["src", "lib", "a", "b", "tests", "docs", "i", "w", "c", "o", "x-1", "dir with space", "ünï", "2024-01-02", "v1.2"];

#[derive(Clone, Copy, Debug)]
pub struct PathOpts {
    pub allow_space: bool,
    pub allow_unicode: bool,
    pub allow_mnemonic_dirs: bool,
}
impl PathOpts {
    pub fn all() -> Self {
        PathOpts { allow_space: true, allow_unicode: true, allow_mnemonic_dirs: true }
    }
    pub fn plain() -> Self {
        PathOpts { allow_space: false, allow_unicode: false, allow_mnemonic_dirs: false }
    }
}

pub fn path(t: &mut Tape, o: &PathOpts) -> String {
    let mut parts: Vec<String> = Vec::new();
    let depth = t.weighted(&[5, 4, 2, 1]);
    for _ in 0..depth {
        let d = *t.pick(DIRS);
        let ok = (o.allow_space || !d.contains(' '))
            && (o.allow_unicode || d.is_ascii())
            && (o.allow_mnemonic_dirs || d.len() > 1);
        parts.push(if ok { d.to_string() } else { "src".to_string() });
    }
    let stem = match t.weighted(&[8, 2, 1, 1]) {
        0 => ident(t),
        1 => format!("{}-{}", ident(t), t.below(30)),
        2 => {
            if o.allow_space {
                format!("{} {}", ident(t), ident(t))
            } else {
                ident(t)
            }
        }
        _ => format!("{}.{}", ident(t), t.below(10)),
    };
    let stem = if o.allow_unicode { stem } else { stem.chars().filter(|c| c.is_ascii()).collect::<String>() };
    let stem = if stem.is_empty() { "f".to_string() } else { stem };
    let name = if t.chance(1, 8) {
        t.pick(NOEXT_NAMES).to_string()
    } else {
        format!("{}.{}", stem, t.pick(EXTS))
    };
    parts.push(name);
    parts.join("/")
}

pub fn hex(t: &mut Tape, n: usize) -> String {
    let mut s = String::with_capacity(n);
    for _ in 0..n {
        s.push(std::char::from_digit(t.below(16) as u32, 16).unwrap());
    }
    s
}

/// does the text contain a grapheme cluster with more than one character of non-zero width?
pub fn has_composite_cluster(s: &str) -> bool {
    use unicode_segmentation::UnicodeSegmentation;
    use unicode_width::UnicodeWidthChar;
    s.graphemes(true).any(|g| g.chars().filter(|c| c.width().unwrap_or(0) > 0).count() > 1)
}

/// does the text contain a grapheme cluster of more than one character (base + combining
/// marks, emoji sequences, ...)?
pub fn has_multichar_cluster(s: &str) -> bool {
    use unicode_segmentation::UnicodeSegmentation;
    s.graphemes(true).any(|g| g.chars().count() > 1 && g != "\r\n")
}
