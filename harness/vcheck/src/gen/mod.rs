pub mod code;
pub mod color;
pub mod config;
pub mod diff;
pub mod mutate;
pub mod other;
pub mod text;
