//! The colouriser: applies git's default palette (color.ui=always) to a rendered stream, in the
//! shapes git really emits (per line, per marker, per word, whitespace errors, bold meta, cyan
//! frag, yellow commit, reset spellings), plus moved-line renditions.
use super::diff::{InLine, Role, LK};
use crate::tape::Tape;

#[derive(Clone, Copy, Debug)]
pub struct ColorOpts {
    /// reset spelling: "\x1b[m" or "\x1b[0m"
    pub reset0: bool,
    /// marker painted separately from the text (git >= 2.x with ws errors): +ESC[m ESC[32m text
    pub split_marker: bool,
    /// context lines carry an explicit reset prefix
    pub ctx_reset: bool,
    pub old: &'static str,
    pub new: &'static str,
    /// the hunk lines come from a CRLF file (their plain form ends in CR): git writes the CR
    /// after the reset; Some(true): on added lines the CR is flagged as a whitespace error
    pub crlf: Option<bool>,
}

pub fn gen_opts(t: &mut Tape) -> ColorOpts {
    ColorOpts { reset0: t.chance(1, 4), split_marker: t.coin(), ctx_reset: t.chance(1, 4), old: "31", new: "32", crlf: None }
}

fn wrap(o: &ColorOpts, code: &str, s: &str) -> String {
    if s.is_empty() {
        return String::new();
    }
    format!("\x1b[{}m{}\x1b[{}m", code, s, if o.reset0 { "0" } else { "" })
}

/// colour one changed line as git does
fn changed(o: &ColorOpts, code: &str, prefix: &str, text: &str, plus: bool) -> String {
    // trailing whitespace on added lines is a whitespace error: red background
    let (body, ws) = if plus {
        let trimmed = text.trim_end_matches(|c| c == ' ' || c == '\t');
        (trimmed, &text[trimmed.len()..])
    } else {
        (text, "")
    };
    let mut s = String::new();
    if o.split_marker {
        s.push_str(&wrap(o, code, prefix));
        s.push_str(&wrap(o, code, body));
    } else {
        s.push_str(&wrap(o, code, &format!("{}{}", prefix, body)));
    }
    if !ws.is_empty() {
        s.push_str(&wrap(o, "41", ws));
    }
    s
}

pub fn colorize(lines: &[InLine], o: &ColorOpts) -> Vec<InLine> {
    lines
        .iter()
        .map(|l| {
            let t = &l.text;
            let text = match &l.role {
                Role::CommitLine => wrap(o, "33", t),
                Role::DiffLine { .. } | Role::Extended { .. } | Role::FileOp { .. } | Role::Mode { .. } | Role::RenameCopy { .. } | Role::MinusFile { .. } | Role::PlusFile { .. } | Role::Binary { .. } => wrap(o, "1", t),
                Role::HunkHeader { .. } => {
                    // cyan frag, function text plain
                    let ats_end = t.find(" @@").map(|i| i + 3).or_else(|| t.rfind('@').map(|i| i + 1)).unwrap_or(t.len());
                    let end = t[..ats_end.min(t.len())].len();
                    let (head, tail) = t.split_at(end);
                    let mut s = wrap(o, "36", head);
                    if !tail.is_empty() {
                        // git: one blank painted with the reset, then the function text
                        s.push_str(&wrap(o, "", tail).replace("\x1b[m", if o.reset0 { "\x1b[0m" } else { "\x1b[m" }));
                    }
                    s
                }
                Role::Hunk { kind, .. } => {
                    // the prefix is the leading run of marker columns
                    let plen = t.chars().take_while(|c| *c == ' ' || *c == '-' || *c == '+').count().min(3);
                    let plen = match kind {
                        LK::Ctx => 0,
                        _ => {
                            // two-way: 1 column; combined: up to parents columns -- take the
                            // columns up to and including the last marker among the first 3
                            let cols: Vec<char> = t.chars().take(plen).collect();
                            cols.iter().rposition(|c| *c == '-' || *c == '+').map(|i| i + 1).unwrap_or(1)
                        }
                    };
                    if let (Some(flag_cr), Some(body)) = (o.crlf, t.strip_suffix('\r')) {
                        // emit_line_0: set, sign + line, reset, then the carriage return
                        let reset = if o.reset0 { "\x1b[0m" } else { "\x1b[m" };
                        return InLine {
                            text: match kind {
                                LK::Ctx => format!("{}{}\r", body, reset),
                                LK::Minus => format!("\x1b[{}m{}{}\r", o.old, body, reset),
                                LK::Plus => {
                                    if flag_cr {
                                        let mut s = format!("\x1b[{}m{}{}", o.new, &body[..plen], reset);
                                        if body.len() > plen {
                                            s.push_str(&format!("\x1b[{}m{}{}", o.new, &body[plen..], reset));
                                        }
                                        s.push_str(&format!("\x1b[41m\r{}", reset));
                                        s
                                    } else {
                                        format!("\x1b[{}m{}{}\r", o.new, body, reset)
                                    }
                                }
                            },
                            role: l.role.clone(),
                        };
                    }
                    match kind {
                        LK::Ctx => {
                            if o.ctx_reset {
                                format!("\x1b[{}m{}", if o.reset0 { "0" } else { "" }, t)
                            } else {
                                t.clone()
                            }
                        }
                        LK::Minus => changed(o, o.old, &t[..plen], &t[plen..], false),
                        LK::Plus => changed(o, o.new, &t[..plen], &t[plen..], true),
                    }
                }
                Role::DiffStat => {
                    // " path | 12 ++++--"
                    match t.rfind(' ') {
                        Some(i) if t[i + 1..].chars().all(|c| c == '+' || c == '-') && !t[i + 1..].is_empty() => {
                            let bars = &t[i + 1..];
                            let plus: String = bars.chars().filter(|c| *c == '+').collect();
                            let minus: String = bars.chars().filter(|c| *c == '-').collect();
                            format!("{} {}{}", &t[..i], wrap(o, "32", &plus), wrap(o, "31", &minus))
                        }
                        _ => t.clone(),
                    }
                }
                _ => t.clone(),
            };
            InLine { text, role: l.role.clone() }
        })
        .collect()
}
