//! Option sets (DESIGN §2.6 "Config", §2.5 tagged family).
use crate::tape::Tape;
use crate::term::{Color, Row};
use dut::verif_api::EnvSpec;

#[derive(Clone, Debug, Default, PartialEq, Eq)]
pub struct Cfg {
    /// option name without the leading "--" -> Some(value) or None for a flag
    pub opts: Vec<(String, Option<String>)>,
    pub env: EnvSpec,
    /// full text of a gitconfig file passed with --config
    pub gitconfig: Option<String>,
}

impl Cfg {
    pub fn new() -> Self {
        Cfg::default()
    }
    pub fn set(&mut self, name: &str, val: &str) {
        if let Some(e) = self.opts.iter_mut().find(|e| e.0 == name) {
            e.1 = Some(val.to_string());
        } else {
            self.opts.push((name.to_string(), Some(val.to_string())));
        }
    }
    pub fn flag(&mut self, name: &str) {
        if !self.opts.iter().any(|e| e.0 == name) {
            self.opts.push((name.to_string(), None));
        }
    }
    pub fn unset(&mut self, name: &str) {
        self.opts.retain(|e| e.0 != name);
    }
    pub fn has(&self, name: &str) -> bool {
        self.opts.iter().any(|e| e.0 == name)
    }
    pub fn get(&self, name: &str) -> Option<&str> {
        self.opts.iter().find(|e| e.0 == name).and_then(|e| e.1.as_deref())
    }
    /// argv without argv[0] and without --config/--no-gitconfig
    pub fn base_args(&self) -> Vec<String> {
        let mut a = Vec::new();
        for (k, v) in &self.opts {
            match v {
                Some(v) => a.push(format!("--{}={}", k, v)),
                None => a.push(format!("--{}", k)),
            }
        }
        a
    }
    /// argv (without argv[0]); a gitconfig, if any, is written to `cfg_path` by the caller
    pub fn args(&self, cfg_path: Option<&str>) -> Vec<String> {
        let mut a = Vec::new();
        match (&self.gitconfig, cfg_path) {
            (Some(_), Some(p)) => a.push(format!("--config={}", p)),
            _ => a.push("--no-gitconfig".to_string()),
        }
        a.extend(self.base_args());
        a
    }
    pub fn fingerprint(&self) -> u64 {
        let mut h = crate::tape::fnv(b"cfg");
        for (k, v) in &self.opts {
            h = crate::tape::fnv_add(h, k.as_bytes());
            h = crate::tape::fnv_add(h, b"=");
            if let Some(v) = v {
                h = crate::tape::fnv_add(h, v.as_bytes());
            }
            h = crate::tape::fnv_add(h, b"\0");
        }
        if let Some(g) = &self.gitconfig {
            h = crate::tape::fnv_add(h, g.as_bytes());
        }
        h = crate::tape::fnv_add(h, format!("{:?}", self.env).as_bytes());
        h
    }
    pub fn describe(&self) -> String {
        let mut s = self.base_args().join(" ");
        if let Some(g) = &self.gitconfig {
            s.push_str(&format!(" [gitconfig: {}]", g.replace('\n', "\\n")));
        }
        let e = &self.env;
        if *e != EnvSpec::default() {
            s.push_str(&format!(" [env: {:?}]", e));
        }
        s
    }
}

// ---------------------------------------------------------------------------------------------
// Tags: reserved palette numbers used as backgrounds so that rendered cells can be attributed to
// the element that painted them.  (Palette numbers pass through unchanged in both colour modes.)

#[derive(Clone, Copy, Debug, PartialEq, Eq, Hash, PartialOrd, Ord)]
#[repr(u8)]
pub enum Tag {
    Minus = 20,
    MinusEmph,
    MinusNonEmph,
    Zero,
    Plus,
    PlusEmph,
    PlusNonEmph,
    WsError,
    MinusEmpty,
    PlusEmpty,
    LnLeft,
    LnRight,
    LnMinus,
    LnZero,
    LnPlus,
    File,
    HunkHeader,
    HunkHeaderFile,
    HunkHeaderLn,
    Commit,
    InlineHint,
    GrepFile,
    GrepLn,
    GrepMatchLine,
    GrepMatchWord,
    GrepContext,
    GrepHeaderFile,
    BlameCode,
    BlameSep,
    FileDeco,
    HunkDeco,
    CommitDeco,
    MergeOurs,
    MergeTheirs,
    MergeOursDeco,
    MergeTheirsDeco,
    GrepHeaderDeco,
}

pub const TAG_LO: u8 = 20;
pub const TAG_HI: u8 = Tag::GrepHeaderDeco as u8;

impl Tag {
    pub fn from_color(c: Color) -> Option<Tag> {
        match c {
            Color::Idx(n) if (TAG_LO..=TAG_HI).contains(&n) => Some(unsafe { std::mem::transmute::<u8, Tag>(n) }),
            _ => None,
        }
    }
    pub fn n(self) -> u8 {
        self as u8
    }
    pub fn is_gutter(self) -> bool {
        matches!(self, Tag::LnLeft | Tag::LnRight | Tag::LnMinus | Tag::LnZero | Tag::LnPlus)
    }
    pub fn is_minus(self) -> bool {
        matches!(self, Tag::Minus | Tag::MinusEmph | Tag::MinusNonEmph | Tag::MinusEmpty)
    }
    pub fn is_plus(self) -> bool {
        matches!(self, Tag::Plus | Tag::PlusEmph | Tag::PlusNonEmph | Tag::PlusEmpty | Tag::WsError)
    }
    pub fn is_zero(self) -> bool {
        self == Tag::Zero
    }
    pub fn is_content(self) -> bool {
        self.is_minus() || self.is_plus() || self.is_zero()
    }
}

/// style option name -> tag, for every style-typed option of the tagged family
pub const TAGGED_STYLES: &[(&str, Tag, bool /* may use `syntax` */)] = &[
    ("minus-style", Tag::Minus, true),
    ("minus-emph-style", Tag::MinusEmph, true),
    ("minus-non-emph-style", Tag::MinusNonEmph, true),
    ("zero-style", Tag::Zero, true),
    ("plus-style", Tag::Plus, true),
    ("plus-emph-style", Tag::PlusEmph, true),
    ("plus-non-emph-style", Tag::PlusNonEmph, true),
    ("whitespace-error-style", Tag::WsError, false),
    ("minus-empty-line-marker-style", Tag::MinusEmpty, false),
    ("plus-empty-line-marker-style", Tag::PlusEmpty, false),
    ("line-numbers-left-style", Tag::LnLeft, false),
    ("line-numbers-right-style", Tag::LnRight, false),
    ("line-numbers-minus-style", Tag::LnMinus, false),
    ("line-numbers-zero-style", Tag::LnZero, false),
    ("line-numbers-plus-style", Tag::LnPlus, false),
    ("file-style", Tag::File, false),
    ("hunk-header-style", Tag::HunkHeader, true),
    ("hunk-header-file-style", Tag::HunkHeaderFile, false),
    ("hunk-header-line-number-style", Tag::HunkHeaderLn, false),
    ("commit-style", Tag::Commit, false),
    ("inline-hint-style", Tag::InlineHint, false),
    ("grep-file-style", Tag::GrepFile, false),
    ("grep-line-number-style", Tag::GrepLn, false),
    ("grep-match-line-style", Tag::GrepMatchLine, true),
    ("grep-match-word-style", Tag::GrepMatchWord, true),
    ("grep-context-line-style", Tag::GrepContext, true),
    ("grep-header-file-style", Tag::GrepHeaderFile, false),
    ("blame-code-style", Tag::BlameCode, true),
    ("blame-separator-style", Tag::BlameSep, false),
    ("merge-conflict-ours-diff-header-style", Tag::MergeOurs, false),
    ("merge-conflict-theirs-diff-header-style", Tag::MergeTheirs, false),
];
pub const TAGGED_DECOS: &[(&str, Tag)] = &[
    ("file-decoration-style", Tag::FileDeco),
    ("hunk-header-decoration-style", Tag::HunkDeco),
    ("commit-decoration-style", Tag::CommitDeco),
    ("merge-conflict-ours-diff-header-decoration-style", Tag::MergeOursDeco),
    ("merge-conflict-theirs-diff-header-decoration-style", Tag::MergeTheirsDeco),
    ("grep-header-decoration-style", Tag::GrepHeaderDeco),
];

pub const ATTRS: &[&str] = &["bold", "dim", "italic", "ul", "blink", "reverse", "strike"];
const NAMED: &[&str] = &["red", "green", "blue", "yellow", "magenta", "cyan", "white", "black", "brightred", "bright-green", "purple"];

pub fn gen_fg(t: &mut Tape, allow_syntax: bool) -> String {
    let sy = if allow_syntax { 4 } else { 0 };
    match t.weighted(&[4, sy, 3, 3, 2]) {
        0 => "normal".to_string(),
        1 => "syntax".to_string(),
        2 => t.pick(NAMED).to_string(),
        3 => {
            // a palette number outside the tag range
            let n = t.range(0, 255 - (TAG_HI - TAG_LO + 1) as usize);
            let n = if n >= TAG_LO as usize { n + (TAG_HI - TAG_LO + 1) as usize } else { n };
            n.to_string()
        }
        _ => format!("#{:02x}{:02x}{:02x}", t.below(256), t.below(256), t.below(256)),
    }
}

pub fn gen_attrs(t: &mut Tape) -> String {
    let mut s = String::new();
    let n = t.weighted(&[6, 3, 1]);
    for _ in 0..n {
        let a = *t.pick(ATTRS);
        if !s.split(' ').any(|x| x == a) {
            s.push(' ');
            s.push_str(a);
        }
    }
    s
}

pub fn tagged_style(t: &mut Tape, tag: Tag, allow_syntax: bool) -> String {
    let mut attrs = gen_attrs(t);
    if tag.is_content() {
        // `reverse` makes delta treat the foreground as the fill colour; the tag must stay the
        // colour that fills empty lines
        attrs = attrs.replace(" reverse", "");
    }
    format!("{} {}{}", gen_fg(t, allow_syntax), tag.n(), attrs)
}

#[derive(Clone, Copy, Debug)]
pub struct CfgOpts {
    pub side_by_side: Option<bool>, // None = either
    pub allow_presets: bool,
    pub allow_hyperlinks: bool,
    pub allow_navigate: bool,
    pub allow_omit: bool,
    pub allow_raw_headers: bool,
    pub allow_color_only: bool,
    pub min_width: usize,
    pub max_width: usize,
    pub wide_only: bool, // only widths that avoid wrapping/filling problems
}

impl CfgOpts {
    pub fn unified() -> Self {
        CfgOpts {
            side_by_side: Some(false),
            allow_presets: true,
            allow_hyperlinks: true,
            allow_navigate: true,
            allow_omit: true,
            allow_raw_headers: false,
            allow_color_only: false,
            min_width: 1,
            max_width: 250,
            wide_only: false,
        }
    }
}

pub const DARK_THEMES: &[&str] = &["none", "Monokai Extended", "Dracula", "Nord", "OneHalfDark", "zenburn", "TwoDark", "ansi"];
pub const LIGHT_THEMES: &[&str] = &["none", "GitHub", "OneHalfLight", "Monokai Extended Light", "gruvbox-light", "Solarized (light)", "ansi"];

/// structural (non-colour) options shared by all families
pub fn gen_structural(t: &mut Tape, c: &mut Cfg, o: &CfgOpts) {
    // colour depth
    let truecolor = t.coin();
    c.set("true-color", if truecolor { "always" } else { "never" });
    // dark/light + theme
    let dark = !t.chance(1, 4);
    c.flag(if dark { "dark" } else { "light" });
    match t.weighted(&[3, 2, 5]) {
        0 => {}
        1 => c.set("syntax-theme", "none"),
        _ => c.set("syntax-theme", t.ps(if dark { DARK_THEMES } else { LIGHT_THEMES })),
    }
    // view
    let sbs = match o.side_by_side {
        Some(b) => b,
        None => t.chance(1, 3),
    };
    if sbs {
        c.flag("side-by-side");
    }
    if t.chance(1, 3) {
        c.flag("line-numbers");
        if t.chance(1, 3) {
            c.set("line-numbers-left-format", t.ps(&["{nm:^4}⋮", "{nm:>6}|", "{nm:<3} ", "{nm}:", "[{nm:^5}]", "{nm:>4}{np:>4} "]));
        }
        if t.chance(1, 3) {
            c.set("line-numbers-right-format", t.ps(&["{np:^4}│", "{np:>6}|", "{np:<3} ", "{np}:", "{np:^7}‖ "]));
        }
    }
    if t.chance(1, 4) {
        c.flag("keep-plus-minus-markers");
    }
    if t.chance(1, 3) {
        c.set("tabs", t.ps(&["8", "4", "2", "1", "0", "3"]));
    }
    // width
    match t.weighted(&[4, 4, 1, 1]) {
        0 => {}
        1 => {
            let w = if o.wide_only { t.range(o.min_width.max(60), o.max_width) } else { t.range(o.min_width, o.max_width) };
            c.set("width", &w.to_string());
        }
        2 => c.set("width", "variable"),
        _ => {
            let w = t.range(o.min_width, o.max_width.min(40).max(o.min_width));
            c.set("width", &w.to_string());
        }
    }
    if t.chance(1, 5) {
        c.set("line-buffer-size", t.ps(&["32", "0", "1", "2", "5"]));
    }
    if t.chance(1, 5) {
        c.set("max-line-distance", t.ps(&["0.6", "0", "1", "0.2", "0.9"]));
    }
    if t.chance(1, 6) {
        c.set("word-diff-regex", t.ps(&[r"\w+", r"\S+", r"[a-z]+|\d+", "."]));
    }
    if t.chance(1, 8) {
        c.set("max-line-length", t.ps(&["3000", "0", "40", "100", "7"]));
    }
    if t.chance(1, 10) {
        c.set("max-syntax-highlighting-length", t.ps(&["400", "0", "10", "50"]));
    }
    if sbs {
        if t.chance(1, 3) {
            c.set("wrap-max-lines", t.ps(&["2", "0", "1", "5", "unlimited"]));
        }
        if t.chance(1, 6) {
            c.set("wrap-right-percent", t.ps(&["37.0", "1", "99", "50"]));
        }
        if t.chance(1, 6) {
            c.set("wrap-left-symbol", t.ps(&["↵", "<", "⏎"]));
            c.set("wrap-right-symbol", t.ps(&["↴", ">", "⤵"]));
            c.set("wrap-right-prefix-symbol", t.ps(&["…", ".", "·"]));
        }
        if t.chance(1, 4) {
            c.set("line-fill-method", t.ps(&["spaces", "ansi"]));
        }
    }
    // labels
    if t.chance(1, 5) {
        c.set("file-modified-label", t.ps(&["", "modified:", "Δ", "changed"]));
        c.set("file-added-label", t.ps(&["added:", "new", "+"]));
        c.set("file-removed-label", t.ps(&["removed:", "gone", "-"]));
        c.set("file-renamed-label", t.ps(&["renamed:", "mv"]));
        c.set("file-copied-label", t.ps(&["copied:", "cp"]));
    }
    if t.chance(1, 6) {
        c.set("right-arrow", t.ps(&["⟶  ", "->", " => "]));
    }
    if t.chance(1, 6) {
        c.set("hunk-label", t.ps(&["", "@@", "§", "hunk"]));
    }
    if o.allow_navigate && t.chance(1, 8) {
        c.flag("navigate");
    }
    if o.allow_hyperlinks && t.chance(1, 8) {
        c.flag("hyperlinks");
        c.env.current_dir = Some("/work/repo".to_string());
        c.env.hostname = Some("host".to_string());
    }
    if o.allow_presets && t.chance(1, 8) {
        match t.weighted(&[1, 1, 1]) {
            0 => c.flag("diff-so-fancy"),
            1 => c.flag("diff-highlight"),
            _ => c.set("features", t.ps(&["diff-so-fancy", "diff-highlight", "line-numbers", "decorations"])),
        }
    }
    if t.chance(1, 12) {
        c.flag("relative-paths");
    }
    if t.chance(1, 10) {
        c.set("default-language", t.ps(&["txt", "rs", "py", "nonexistent"]));
    }
    if t.chance(1, 14) {
        c.set("inspect-raw-lines", t.ps(&["true", "false"]));
    }
}

/// The tagged family: every style-typed option gets its reserved background.
pub fn gen_tagged_styles(t: &mut Tape, c: &mut Cfg, o: &CfgOpts) {
    for (name, tag, syn) in TAGGED_STYLES {
        let mut st = tagged_style(t, *tag, *syn);
        if *name == "hunk-header-style" {
            // the special words of hunk-header-style
            match t.weighted(&[3, 3, 2, 1, 1]) {
                0 => st.push_str(" line-number"),
                1 => {}
                2 => st.push_str(" file line-number"),
                3 => st.push_str(" file"),
                _ => st.push_str(" omit-code-fragment line-number"),
            }
            if o.allow_omit && t.chance(1, 10) {
                st = "omit".to_string();
            }
        }
        if (*name == "file-style" || *name == "commit-style") && o.allow_omit && t.chance(1, 12) {
            st = "omit".to_string();
        }
        c.set(name, &st);
    }
    for (name, tag) in TAGGED_DECOS {
        let deco = *t.pick(&["box", "ul", "ol", "none", "box ul", "ul ol", "box ol", ""]);
        let st = if deco == "none" || deco.is_empty() {
            deco.to_string()
        } else {
            format!("{} {} {}", gen_fg(t, false), tag.n(), deco)
        };
        c.set(name, &st);
    }
}

pub fn gen_tagged_cfg(t: &mut Tape, o: &CfgOpts) -> Cfg {
    let mut c = Cfg::new();
    gen_structural(t, &mut c, o);
    gen_tagged_styles(t, &mut c, o);
    c
}

// ---------------------------------------------------------------------------------------------
// Row classification by tags

#[derive(Clone, Debug, Default)]
pub struct RowTags {
    pub tags: Vec<Tag>, // distinct, sorted
}

impl RowTags {
    pub fn of(row: &Row) -> RowTags {
        let mut tags: Vec<Tag> = Vec::new();
        for c in &row.cells {
            if let Some(tg) = Tag::from_color(c.st.bg) {
                if !tags.contains(&tg) {
                    tags.push(tg);
                }
            }
        }
        for e in &row.erases {
            if let Some(tg) = Tag::from_color(e.st.bg) {
                if !tags.contains(&tg) {
                    tags.push(tg);
                }
            }
        }
        tags.sort();
        RowTags { tags }
    }
    pub fn has(&self, t: Tag) -> bool {
        self.tags.contains(&t)
    }
    pub fn any(&self, f: impl Fn(Tag) -> bool) -> bool {
        self.tags.iter().any(|t| f(*t))
    }
}

// ---------------------------------------------------------------------------------------------
// Edge family (C03): every presentation mode crossed with edge values; valid by construction.

pub fn gen_edge_cfg(t: &mut Tape) -> (Cfg, bool) {
    let mut c = Cfg::new();
    let o = CfgOpts {
        side_by_side: None,
        allow_presets: true,
        allow_hyperlinks: true,
        allow_navigate: true,
        allow_omit: true,
        allow_raw_headers: true,
        allow_color_only: true,
        min_width: 0,
        max_width: 250,
        wide_only: false,
    };
    gen_structural(t, &mut c, &o);
    if t.coin() {
        gen_tagged_styles(t, &mut c, &o);
    }
    let mut edge = false;
    let mut e = |c: &mut Cfg, t: &mut Tape, name: &str, vals: &[&str], p: u32| {
        if t.chance(1, p) {
            c.set(name, *t.pick(vals));
            true
        } else {
            false
        }
    };
    edge |= e(&mut c, t, "width", &["0", "1", "2", "3", "4", "5", "7", "9", "11", "13", "79", "81", "variable", "-1", "-80", "100-99", "3-1"], 4);
    edge |= e(&mut c, t, "wrap-max-lines", &["0", "1", "unlimited", "∞", "40"], 6);
    edge |= e(&mut c, t, "max-line-length", &["0", "1", "2", "5", "10"], 6);
    edge |= e(&mut c, t, "tabs", &["0", "1", "100"], 8);
    edge |= e(&mut c, t, "line-buffer-size", &["0", "1"], 8);
    edge |= e(&mut c, t, "max-syntax-highlighting-length", &["0", "1", "2", "3"], 8);
    edge |= e(&mut c, t, "max-line-distance", &["0", "1", "0.0000001", "100", "-1", "NaN", "inf"], 8);
    edge |= e(&mut c, t, "word-diff-regex", &[r"\w*", "", ".*", "x?", r"\b", "(?:)", r"\s*", "[^a]*", r"\w+|\s+", "é|."], 8);
    edge |= e(&mut c, t, "wrap-right-percent", &["0.1", "99.9", "0.0001", "50%"], 10);
    edge |= e(&mut c, t, "line-numbers-left-format", &["", "{nm}", "{nm:>100}", "{nm:^0}", "{np}{nm}{np}{nm}", "{nm:<1}{nm:>1}", "世{nm:^3}界", "{{nm}}", "{nm:}", "{nm:^4", "{nm:x}", "{xx}"], 8);
    edge |= e(&mut c, t, "line-numbers-right-format", &["", "{np}", "{np:>100}", "{np:^0}{nm:^0}", "│", "{np:^4}\t", "{np:_^8}"], 8);
    edge |= e(&mut c, t, "hunk-header-style", &["raw", "omit", "file", "line-number", "file line-number", "omit-code-fragment", "file omit-code-fragment", "syntax file line-number bold", ""], 8);
    edge |= e(&mut c, t, "hunk-header-decoration-style", &["", "none", "omit", "box ul ol", "ul ol", "box"], 10);
    edge |= e(&mut c, t, "file-style", &["raw", "omit", "", "box", "ul", "overline"], 10);
    edge |= e(&mut c, t, "file-decoration-style", &["", "none", "omit", "box ul ol", "ol", "box"], 10);
    edge |= e(&mut c, t, "commit-style", &["raw", "omit", "", "box", "ul bold"], 10);
    edge |= e(&mut c, t, "commit-decoration-style", &["", "none", "box ul", "ol", "box"], 10);
    edge |= e(&mut c, t, "zero-style", &["raw", "", "syntax", "normal"], 12);
    edge |= e(&mut c, t, "minus-style", &["raw", "", "syntax red", "normal"], 12);
    edge |= e(&mut c, t, "plus-style", &["raw", "", "syntax green", "normal"], 12);
    edge |= e(&mut c, t, "hunk-label", &["", " ", "世界", "@@"], 12);
    edge |= e(&mut c, t, "right-arrow", &["", " ", "→"], 12);
    edge |= e(&mut c, t, "file-modified-label", &["", " ", "Δ"], 12);
    edge |= e(&mut c, t, "grep-separator-symbol", &["", ":", "keep", "世"], 10);
    edge |= e(&mut c, t, "grep-output-type", &["ripgrep", "classic"], 6);
    edge |= e(&mut c, t, "blame-format", &["", "{commit}", "{timestamp:<1} {author:>1.0} {commit:^1}", "{author:<100}", "{commit:>8}{commit}{commit}", "{timestamp}", "{author:.1}", "x"], 8);
    edge |= e(&mut c, t, "blame-separator-format", &["", "{n}", "│{n:^4}│", "{n:block}", "{n:every-2}", "{n:every-1}", "{n:>100}", "none", "{n:^1}", "{n:every-0}", "│{n:^4_every-0}│", "{n:every-00}", "{n:^3_every-7}"], 8);
    edge |= e(&mut c, t, "blame-palette", &["1", "red", "#000000 #111111", "1 2 3 4 5 6 7 8 9"], 8);
    edge |= e(&mut c, t, "blame-timestamp-output-format", &["%Y", "", "%s", "%Y-%m-%d %H:%M:%S %z", "%%"], 10);
    edge |= e(&mut c, t, "hyperlinks-file-link-format", &["", "{path}", "file://{path}#{line}", "x://{host}/{path}:{line}:{line}", "{", "{nope}"], 10);
    edge |= e(&mut c, t, "hyperlinks-commit-link-format", &["", "{commit}", "https://x/{commit}/{commit}", "{"], 12);
    edge |= e(&mut c, t, "diff-stat-align-width", &["0", "1", "1000"], 12);
    edge |= e(&mut c, t, "navigate-regex", &["", "^x", "."], 16);
    edge |= e(&mut c, t, "map-styles", &["bold purple => red, bold cyan => syntax blue", "red => raw", "", "bold red => omit"], 12);
    edge |= e(&mut c, t, "inline-hint-style", &["", "raw", "omit", "syntax"], 14);
    edge |= e(&mut c, t, "file-transformation", &["s/a/b/", "s/.*//", "s,src/,,g", "bad", "s/(/x/"], 14);
    edge |= e(&mut c, t, "merge-conflict-begin-symbol", &["", "世", "xx", "\u{200b}", "\u{301}", "🎉"], 10);
    edge |= e(&mut c, t, "merge-conflict-end-symbol", &["", "世", "xx", "\u{200b}\u{200d}", "👍🏽"], 10);
    edge |= e(&mut c, t, "commit-regex", &["", ".", "^x", "^commit "], 16);
    if t.chance(1, 10) {
        c.flag("color-only");
        edge = true;
    }
    if t.chance(1, 12) {
        c.flag("raw");
        edge = true;
    }
    if t.chance(1, 6) {
        c.flag("side-by-side");
    }
    if t.chance(1, 6) {
        c.flag("line-numbers");
    }
    (c, edge)
}

/// A maximum line length shorter than a header line destroys the construct markers themselves
/// (delta truncates every input line before parsing it); keep it above every non-hunk line.
pub fn keep_headers_intact(cfg: &mut Cfg, lines: &[crate::gen::diff::InLine]) {
    keep_headers_intact_except(cfg, lines, false)
}

/// As above; with `hunk_headers_may_exceed` the `@@` lines are left out of the computation: delta
/// documents that long hunk headers are not truncated, so a limit below their length is in scope
/// wherever the check does not read the fragment text back.
pub fn keep_headers_intact_except(cfg: &mut Cfg, lines: &[crate::gen::diff::InLine], hunk_headers_may_exceed: bool) {
    if hunk_headers_may_exceed {
        let l2: Vec<crate::gen::diff::InLine> = lines.iter().filter(|l| !matches!(l.role, crate::gen::diff::Role::HunkHeader { .. })).cloned().collect();
        return keep_headers_intact_except(cfg, &l2, false);
    }
    if let Some(m) = cfg.get("max-line-length").and_then(|v| v.parse::<usize>().ok()) {
        if m > 0 {
            let longest = lines.iter().filter(|l| !matches!(l.role, crate::gen::diff::Role::Hunk { .. })).map(|l| l.text.len()).max().unwrap_or(0);
            if longest >= m {
                cfg.set("max-line-length", &(longest + 1).to_string());
            }
        }
    }
}
