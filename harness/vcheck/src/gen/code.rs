//! Small realistic code lines per language (for syntax-highlighting checks).
use crate::tape::Tape;

pub const LANGS: &[(&str, &[&str])] = &[
    ("rs", &[
        "fn main() {", "    let mut v: Vec<String> = Vec::new();", "    println!(\"{} items\", v.len()); // count", "pub struct Config { width: usize }", "    if x > 10 && y != \"abc\" { return None; }",
        "impl<'a> Painter<'a> {", "    /// doc comment", "    match state { State::Unknown => 1, _ => 0 }", "use std::collections::HashMap;", "const MAX: u32 = 0xff_u32;", "}",
    ]),
    ("py", &[
        "def main(argv=None):", "    import os, sys  # imports", "    for i in range(10):", "        print(f\"value {i}\")", "class Foo(Base):", "    return {'a': 1, \"b\": [2, 3]}", "    '''docstring'''", "x = lambda y: y ** 2", "if __name__ == \"__main__\":", "    raise ValueError('bad')",
    ]),
    ("c", &[
        "#include <stdio.h>", "int main(int argc, char **argv) {", "    printf(\"%d\\n\", argc); /* count */", "    for (int i = 0; i < 10; i++) {", "static const char *name = \"delta\";", "    return 0;", "}", "#define MAX(a, b) ((a) > (b) ? (a) : (b))", "struct point { double x, y; };", "// line comment",
    ]),
    ("js", &[
        "function main(args) {", "  const x = [1, 2, 3].map(n => n * 2);", "  console.log(`total ${x.length}`); // log", "export default class Foo extends Bar {", "  if (a === 'b' || c !== null) { return; }", "let re = /ab+c/gi;", "import { a, b } from './mod.js';", "}", "  async function* gen() { yield 1; }",
    ]),
    ("sh", &[
        "#!/bin/bash", "set -euo pipefail", "for f in *.txt; do", "  echo \"file: $f\" # comment", "done", "if [ -z \"${VAR:-}\" ]; then exit 1; fi", "function usage() { cat <<EOF", "export PATH=\"$HOME/bin:$PATH\"", "x=$(ls | wc -l)",
    ]),
    ("toml", &[
        "[package]", "name = \"delta\" # comment", "version = \"0.18.2\"", "[dependencies]", "regex = { version = \"1.7\", features = [\"std\"] }", "edition = 2018", "debug = true", "authors = [\"a\", \"b\"]",
    ]),
    ("Makefile", &[
        "CC := gcc", "all: build test", "\t$(CC) -o $@ $^ # link", "build:", "\tcargo build --release", ".PHONY: all clean", "clean:", "\trm -rf target/", "ifeq ($(OS),Windows_NT)", "endif",
    ]),
    ("cmake", &[
        "cmake_minimum_required(VERSION 3.10)", "project(demo C CXX)", "set(SRC main.c util.c) # sources", "add_executable(demo ${SRC})", "if(WIN32)", "endif()", "target_link_libraries(demo PRIVATE m)", "message(STATUS \"building ${PROJECT_NAME}\")", "foreach(f IN LISTS SRC)", "endforeach()",
    ]),
];

pub fn lang(t: &mut Tape) -> (&'static str, &'static [&'static str]) {
    let (l, lines) = LANGS[t.below(LANGS.len())];
    (l, lines)
}

pub fn line(t: &mut Tape, lines: &[&str]) -> String {
    lines[t.below(lines.len())].to_string()
}

/// two different file names of the language (same extension / same whole name in other dirs)
pub fn two_names(t: &mut Tape, lang: &str) -> (String, String) {
    let stems = ["main", "util", "foo_bar", "x", "Config", "a-b", "módulo", "v2.test", "report (1)", "notes (old)"];
    let dirs = ["", "src/", "lib/deep/dir/", "a b/", "ünï/", "docs (draft)/"];
    if lang == "Makefile" && t.coin() {
        // an extension-less name and a name with the language's extension
        let d1 = dirs[t.below(dirs.len())];
        let d2 = dirs[t.below(dirs.len())];
        let whole = *t.pick(&["Makefile", "Makefile", "GNUmakefile", "Makefile.am", "makefile.in"]);
        let (a, b) = (format!("{}{}", d1, whole), format!("{}{}.mk", d2, stems[t.below(4)]));
        return if t.coin() { (a, b) } else { (b, a) };
    }
    // a whole file name the language registers (some contain a dot whose "extension" belongs to
    // another language: CMakeLists.txt, Cargo.lock) and a name with the language's extension
    let whole: &[&str] = match lang {
        "cmake" => &["CMakeLists.txt"],
        "toml" => &["Cargo.lock", "Pipfile", "poetry.lock"],
        "py" => &["SConstruct"],
        _ => &[],
    };
    if !whole.is_empty() && t.chance(1, 3) {
        let d1 = dirs[t.below(dirs.len())];
        let d2 = dirs[t.below(dirs.len())];
        let (a, b) = (format!("{}{}", d1, t.pick(whole)), format!("{}{}.{}", d2, stems[t.below(4)], lang));
        return if t.coin() { (a, b) } else { (b, a) };
    }
    if lang == "Makefile" {
        let d1 = dirs[t.below(dirs.len())];
        let mut d2 = dirs[t.below(dirs.len())];
        if d2 == d1 {
            d2 = if d1.is_empty() { "sub/" } else { "" };
        }
        return (format!("{}Makefile", d1), format!("{}Makefile", d2));
    }
    let s1 = stems[t.below(stems.len())];
    let mut s2 = stems[t.below(stems.len())];
    if s2 == s1 {
        s2 = if s1 == "main" { "other" } else { "main" };
    }
    (format!("{}{}.{}", dirs[t.below(dirs.len())], s1, lang), format!("{}{}.{}", dirs[t.below(dirs.len())], s2, lang))
}
