//! Structured diff streams (DESIGN §2.6): a `DiffCase` is generated from the tape, rendered to
//! input lines that carry their role, and is also what the oracles compute expectations from.
use super::text::{self, PathOpts, TextOpts};
use crate::tape::Tape;

#[derive(Clone, Copy, Debug, PartialEq, Eq, Hash)]
pub enum LK {
    Ctx,
    Minus,
    Plus,
}

#[derive(Clone, Debug, PartialEq, Eq)]
pub struct HLine {
    pub kind: LK,
    /// for combined diffs: the per-parent prefix (len = parents); for two-way: "-", "+", " "
    pub prefix: String,
    pub text: String,
    /// followed by "\ No newline at end of file"
    pub no_newline_after: bool,
}

/// A merge-conflict region inside a hunk of a two-parent combined diff (the working-tree file
/// still contains the conflict markers): `++<<<<<<< ours`, our lines, optionally
/// `++||||||| base` and the ancestor's lines, `++=======`, their lines, `++>>>>>>> theirs`.
#[derive(Clone, Debug, PartialEq, Eq)]
pub struct Conflict {
    /// the region stands in front of hunk line `at` (== lines.len(): after the last line)
    pub at: usize,
    pub ours_name: String,
    pub theirs_name: String,
    pub base_name: Option<String>,
    pub ours: Vec<HLine>,
    pub base: Vec<HLine>,
    pub theirs: Vec<HLine>,
}

#[derive(Clone, Debug, PartialEq, Eq)]
pub struct Hunk {
    pub old_start: usize,
    pub new_start: usize,
    pub lines: Vec<HLine>,
    pub fragment: String,
    /// raw header text as rendered
    pub header: String,
    pub conflict: Option<Conflict>,
}

#[derive(Clone, Copy, Debug, PartialEq, Eq, Hash)]
pub enum SK {
    Modified,
    Added,
    Deleted,
    RenamedPure,
    RenamedChanged,
    CopiedPure,
    CopiedChanged,
    ModeOnly,
    ModeChanged,
    BinaryModified,
    BinaryAdded,
    BinaryDeleted,
    /// renamed / copied with changes, binary: rename/copy lines, then `Binary files a/old and b/new differ`
    RenamedBinary,
    CopiedBinary,
    SubmoduleShort,
    EmptyNew,
    EmptyDeleted,
    Combined,
    PlainDiffU,
}

impl SK {
    pub fn has_hunks(self) -> bool {
        matches!(
            self,
            SK::Modified
                | SK::Added
                | SK::Deleted
                | SK::RenamedChanged
                | SK::CopiedChanged
                | SK::ModeChanged
                | SK::SubmoduleShort
                | SK::Combined
                | SK::PlainDiffU
        )
    }
    pub fn name(self) -> &'static str {
        match self {
            SK::Modified => "modified",
            SK::Added => "added",
            SK::Deleted => "deleted",
            SK::RenamedPure => "renamed-pure",
            SK::RenamedChanged => "renamed-changed",
            SK::CopiedPure => "copied-pure",
            SK::CopiedChanged => "copied-changed",
            SK::ModeOnly => "mode-only",
            SK::ModeChanged => "mode-changed",
            SK::BinaryModified => "binary-modified",
            SK::BinaryAdded => "binary-added",
            SK::BinaryDeleted => "binary-deleted",
            SK::RenamedBinary => "renamed-binary",
            SK::CopiedBinary => "copied-binary",
            SK::SubmoduleShort => "submodule-short",
            SK::EmptyNew => "empty-new",
            SK::EmptyDeleted => "empty-deleted",
            SK::Combined => "combined",
            SK::PlainDiffU => "plain-diff-u",
        }
    }
}

#[derive(Clone, Debug, PartialEq, Eq)]
pub struct Section {
    pub kind: SK,
    pub old_path: String,
    pub new_path: String,
    pub old_mode: String,
    pub new_mode: String,
    pub hunks: Vec<Hunk>,
    /// number of parents for combined diffs (else 1)
    pub parents: usize,
    /// mnemonic prefixes used in ---/+++ lines, e.g. ("a/","b/")
    pub prefixes: (String, String),
}

#[derive(Clone, Debug, PartialEq, Eq)]
pub struct Commit {
    pub hash: String,
    pub decoration: String,
    pub merge: Option<String>,
    pub author: String,
    pub date: String,
    pub message: Vec<String>,
    pub diffstat: Vec<String>,
}

#[derive(Clone, Debug, PartialEq, Eq)]
pub enum Item {
    Commit(Commit),
    Section(Section),
    /// free text lines (already checked not to begin with a construct-opening marker)
    Free(Vec<String>),
}

#[derive(Clone, Debug, PartialEq, Eq, Default)]
pub struct DiffCase {
    pub items: Vec<Item>,
    pub final_newline: bool,
}

#[derive(Clone, Debug, PartialEq, Eq)]
pub enum Role {
    Free,
    CommitLine,
    CommitMeta,
    CommitMsg,
    Blank,
    DiffStat,
    DiffLine { sec: usize },
    /// index / similarity lines
    Extended { sec: usize },
    FileOp { sec: usize },
    Mode { sec: usize },
    RenameCopy { sec: usize },
    MinusFile { sec: usize },
    PlusFile { sec: usize },
    Binary { sec: usize },
    HunkHeader { sec: usize, hunk: usize },
    Hunk { sec: usize, hunk: usize, idx: usize, kind: LK },
    /// line of a merge-conflict region: part 0 = marker line, 1 = ours, 2 = base, 3 = theirs
    Conflict { sec: usize, hunk: usize, part: u8, idx: usize },
    NoNewline { sec: usize, hunk: usize },
}

#[derive(Clone, Debug, PartialEq, Eq)]
pub struct InLine {
    pub text: String,
    pub role: Role,
}

#[derive(Clone, Copy, Debug)]
pub struct GenOpts {
    pub max_items: usize,
    pub max_hunks: usize,
    pub max_lines: usize,
    pub text: TextOpts,
    pub paths: PathOpts,
    pub allow_commits: bool,
    pub allow_combined: bool,
    pub allow_plain: bool,
    pub allow_hunkless: bool,
    pub allow_free: bool,
    pub huge_numbers: bool,
    /// every kind allowed? (else only kinds with hunks that are two-way)
    pub two_way_only: bool,
    /// merge-conflict regions inside two-parent combined diffs
    pub allow_conflict: bool,
}

impl GenOpts {
    pub fn default_full() -> Self {
        GenOpts {
            max_items: 5,
            max_hunks: 3,
            max_lines: 12,
            text: TextOpts::all(),
            paths: PathOpts::all(),
            allow_commits: true,
            allow_combined: true,
            allow_plain: true,
            allow_hunkless: true,
            allow_free: false,
            huge_numbers: true,
            two_way_only: false,
            allow_conflict: false,
        }
    }
}

fn gen_start(t: &mut Tape, huge: bool) -> usize {
    let h = if huge { 1 } else { 0 };
    match t.weighted(&[6, 3, 2, 2, h, h]) {
        0 => t.range(1, 50),
        1 => *t.pick(&[1usize, 9, 10, 99, 100, 999, 1000, 9999, 10000]),
        2 => t.range(51, 5000),
        3 => t.range(5001, 120000),
        4 => t.range(999_990, 1_000_010),
        _ => t.range(1_000_011, 99_999_999),
    }
}

fn gen_fragment(t: &mut Tape, o: &TextOpts) -> String {
    match t.weighted(&[3, 6, 1, 1]) {
        0 => String::new(),
        1 => {
            let n = t.range(1, 5);
            let oo = TextOpts { allow_markerlike: false, allow_long: false, ..*o };
            text::code_tokens(t, n, &oo)
        }
        2 => {
            if o.allow_tabs {
                format!("{}\t{}", text::ident(t), text::ident(t))
            } else {
                text::ident(t)
            }
        }
        _ => format!("fn {}(", text::ident(t)),
    }
}

/// A run of hunk lines: sub-hunks (minus* plus*) separated by context.
pub fn gen_hunk_lines(t: &mut Tape, max_lines: usize, o: &TextOpts, only: Option<LK>) -> Vec<HLine> {
    let mut lines: Vec<HLine> = Vec::new();
    let target = t.range(1, max_lines.max(1));
    let mk = |kind: LK, text: String| HLine {
        kind,
        prefix: match kind {
            LK::Ctx => " ",
            LK::Minus => "-",
            LK::Plus => "+",
        }
        .to_string(),
        text,
        no_newline_after: false,
    };
    if let Some(k) = only {
        for _ in 0..target {
            lines.push(mk(k, text::content(t, o)));
        }
        return lines;
    }
    while lines.len() < target {
        match t.weighted(&[4, 6]) {
            0 => {
                let n = t.range(1, 3);
                for _ in 0..n {
                    lines.push(mk(LK::Ctx, text::content(t, o)));
                }
            }
            _ => {
                // a sub-hunk: m minus, p plus, some plus lines derived from the minus lines
                let m = t.weighted(&[2, 4, 2, 1, 1]);
                let p = t.weighted(&[2, 4, 2, 1, 1]);
                let (m, p) = if m == 0 && p == 0 { (1, 1) } else { (m, p) };
                let mut minus: Vec<String> = Vec::new();
                for _ in 0..m {
                    minus.push(text::content(t, o));
                }
                for s in &minus {
                    lines.push(mk(LK::Minus, s.clone()));
                }
                for i in 0..p {
                    let s = if i < minus.len() && t.chance(2, 3) {
                        text::mutate_line(t, &minus[i], o)
                    } else {
                        text::content(t, o)
                    };
                    lines.push(mk(LK::Plus, s));
                }
            }
        }
    }
    lines
}

pub fn finish_hunk(old_start: usize, new_start: usize, lines: Vec<HLine>, fragment: String, omit_ones: bool, parents: usize) -> Hunk {
    let oc = lines.iter().filter(|l| l.kind != LK::Plus).count();
    let nc = lines.iter().filter(|l| l.kind != LK::Minus).count();
    let fmt = |s: usize, c: usize| {
        if c == 1 && omit_ones {
            format!("{}", s)
        } else {
            format!("{},{}", s, c)
        }
    };
    let ats = "@".repeat(parents + 1);
    let mut header = ats.clone();
    for _ in 0..parents {
        header.push_str(&format!(" -{}", fmt(old_start, oc)));
    }
    header.push_str(&format!(" +{} {}", fmt(new_start, nc), ats));
    if !fragment.is_empty() {
        header.push(' ');
        header.push_str(&fragment);
    }
    Hunk { old_start, new_start, lines, fragment, header, conflict: None }
}

fn gen_hunks(t: &mut Tape, o: &GenOpts, only: Option<LK>, parents: usize) -> Vec<Hunk> {
    let n = t.range(1, o.max_hunks.max(1));
    let mut hunks = Vec::new();
    let mut old = gen_start(t, o.huge_numbers);
    let mut new = if t.chance(1, 3) { old } else { gen_start(t, o.huge_numbers) };
    for _ in 0..n {
        let mut lines = gen_hunk_lines(t, o.max_lines, &o.text, only);
        if parents > 1 {
            for l in lines.iter_mut() {
                l.prefix = combined_prefix(t, l.kind, parents);
            }
        }
        let (os, ns) = match only {
            Some(LK::Plus) => (0, 1),
            Some(LK::Minus) => (1, 0),
            _ => (old, new),
        };
        let frag = gen_fragment(t, &o.text);
        let omit_ones = t.chance(3, 4);
        let mut h = finish_hunk(os, ns, lines, frag, omit_ones, parents);
        if o.allow_conflict && parents == 2 && t.chance(1, 2) {
            let oo = TextOpts { allow_markerlike: false, ..o.text };
            let mut side = |t: &mut Tape, n: usize| -> Vec<HLine> {
                (0..n)
                    .map(|_| HLine { kind: LK::Plus, prefix: t.ps(&["++", " +", "+ "]).to_string(), text: text::content(t, &oo), no_newline_after: false })
                    .collect()
            };
            let (no, nb, nt) = (t.below(4), t.below(3), t.below(4));
            let with_base = t.chance(1, 3);
            h.conflict = Some(Conflict {
                at: t.below(h.lines.len() + 1),
                ours_name: t.ps(&["HEAD", "ours", "Updated upstream", "a1b2c3d (some subject)"]).to_string(),
                theirs_name: t.ps(&["other", "feature/x", "Stashed changes", "9f8e7d6 (subject two)"]).to_string(),
                base_name: if with_base { Some(t.ps(&["base", "merged common ancestors", "1234567"]).to_string()) } else { None },
                ours: side(t, no),
                base: if with_base { side(t, nb) } else { Vec::new() },
                theirs: side(t, nt),
            });
        }
        old += h.lines.len() + t.range(1, 40);
        new += h.lines.len() + t.range(1, 40);
        hunks.push(h);
    }
    // "\ No newline at end of file" on the last hunk
    if t.chance(1, 6) {
        if let Some(h) = hunks.last_mut() {
            let n = h.lines.len();
            // after the last minus line and/or after the last line
            if t.coin() {
                h.lines[n - 1].no_newline_after = true;
            }
            if let Some(i) = h.lines.iter().rposition(|l| l.kind == LK::Minus) {
                if t.coin() && (i + 1 == n || h.lines[i + 1].kind == LK::Plus) {
                    h.lines[i].no_newline_after = true;
                }
            }
        }
    }
    hunks
}

fn combined_prefix(t: &mut Tape, kind: LK, parents: usize) -> String {
    // git: a prefix column is ' ', '-' or '+'; '-' and '+' never mix in one line
    let ch = match kind {
        LK::Ctx => return " ".repeat(parents),
        LK::Minus => '-',
        LK::Plus => '+',
    };
    let mut s: Vec<char> = vec![' '; parents];
    let first = t.below(parents);
    s[first] = ch;
    for (i, c) in s.iter_mut().enumerate() {
        if i != first && t.coin() {
            *c = ch;
        }
    }
    s.into_iter().collect()
}

pub fn gen_section(t: &mut Tape, o: &GenOpts) -> Section {
    let hk = if o.allow_hunkless && !o.two_way_only { 1 } else { 0 };
    let cb = if o.allow_combined && !o.two_way_only { 2 } else { 0 };
    let pl = 0; // plain diff -u sections are generated only as whole-stream cases (gen_plain_case)
    let tw = if o.two_way_only { 0 } else { 1 };
    let kinds = [
        (SK::Modified, 10),
        (SK::Added, 3),
        (SK::Deleted, 3),
        (SK::RenamedChanged, 2),
        (SK::ModeChanged, 2 * tw),
        (SK::CopiedChanged, tw),
        (SK::RenamedPure, 2 * hk),
        (SK::CopiedPure, hk),
        (SK::ModeOnly, 2 * hk),
        (SK::BinaryModified, 2 * hk),
        (SK::BinaryAdded, hk),
        (SK::BinaryDeleted, hk),
        (SK::SubmoduleShort, tw),
        (SK::EmptyNew, hk),
        (SK::EmptyDeleted, hk),
        (SK::Combined, cb),
        (SK::PlainDiffU, pl),
        (SK::RenamedBinary, hk),
        (SK::CopiedBinary, hk),
    ];
    let w: Vec<u32> = kinds.iter().map(|k| k.1).collect();
    let kind = kinds[t.weighted(&w)].0;
    gen_section_of_kind(t, o, kind)
}

pub fn gen_section_of_kind(t: &mut Tape, o: &GenOpts, kind: SK) -> Section {
    let p1 = text::path(t, &o.paths);
    let renamed = matches!(kind, SK::RenamedPure | SK::RenamedChanged | SK::CopiedPure | SK::CopiedChanged | SK::RenamedBinary | SK::CopiedBinary);
    let mut p2 = if renamed { text::path(t, &o.paths) } else { p1.clone() };
    if renamed && p2 == p1 {
        p2 = format!("new_{}", p2);
    }
    let prefixes = match t.weighted(&[8, 1, 1, 1]) {
        0 => ("a/", "b/"),
        1 => ("i/", "w/"),
        2 => ("c/", "w/"),
        _ => ("o/", "w/"),
    };
    let (old_mode, new_mode) = match kind {
        SK::ModeOnly | SK::ModeChanged => match t.weighted(&[3, 3, 1]) {
            0 => ("100644", "100755"),
            1 => ("100755", "100644"),
            _ => ("100644", "120000"),
        },
        SK::SubmoduleShort => ("160000", "160000"),
        _ => {
            if t.chance(1, 5) {
                ("100755", "100755")
            } else {
                ("100644", "100644")
            }
        }
    };
    let parents = if kind == SK::Combined { t.range(2, 3) } else { 1 };
    let hunks = match kind {
        SK::Added => {
            let mut oo = *o;
            oo.max_hunks = 1;
            gen_hunks(t, &oo, Some(LK::Plus), 1)
        }
        SK::Deleted => {
            let mut oo = *o;
            oo.max_hunks = 1;
            gen_hunks(t, &oo, Some(LK::Minus), 1)
        }
        SK::SubmoduleShort => {
            let a = text::hex(t, 40);
            let b = text::hex(t, 40);
            let mk = |kind, prefix: &str, text: String| HLine { kind, prefix: prefix.to_string(), text, no_newline_after: false };
            vec![finish_hunk(
                1,
                1,
                vec![
                    mk(LK::Minus, "-", format!("Subproject commit {}", a)),
                    mk(LK::Plus, "+", format!("Subproject commit {}", b)),
                ],
                String::new(),
                true,
                1,
            )]
        }
        k if k.has_hunks() => gen_hunks(t, o, None, parents),
        _ => Vec::new(),
    };
    Section {
        kind,
        old_path: p1,
        new_path: p2,
        old_mode: old_mode.to_string(),
        new_mode: new_mode.to_string(),
        hunks,
        parents,
        prefixes: (prefixes.0.to_string(), prefixes.1.to_string()),
    }
}

/// The paths of a two-way git section as git writes them under core.quotePath (its default): every
/// byte outside ASCII as a backslash and three octal digits; render_section adds the quotes (and,
/// behind them, the tab that follows a name with a blank).  What delta shows is the escaped name, as git itself does.
pub fn quote_paths(s: &mut Section) {
    if matches!(s.kind, SK::PlainDiffU | SK::Combined | SK::SubmoduleShort) {
        return;
    }
    let esc = |p: &str| -> String {
        let mut o = String::new();
        for b in p.bytes() {
            if b < 0x80 {
                o.push(b as char);
            } else {
                o.push_str(&format!("\\{:03o}", b));
            }
        }
        o
    };
    s.old_path = esc(&s.old_path);
    s.new_path = esc(&s.new_path);
}

pub fn gen_commit(t: &mut Tape, with_stat_for: &[String]) -> Commit {
    let hash = text::hex(t, 40);
    let decoration = match t.weighted(&[5, 1, 1]) {
        0 => String::new(),
        1 => " (HEAD -> main)".to_string(),
        _ => " (tag: v1.0, origin/main)".to_string(),
    };
    let merge = if t.chance(1, 8) {
        Some(format!("{} {}", text::hex(t, 7), text::hex(t, 7)))
    } else {
        None
    };
    let author = format!(
        "{} {} <{}@example.com>",
        t.pick(&["Ann", "Bob", "Çağrı", "Dan Davison", "Eve (work)"]),
        t.pick(&["Smith", "Müller", "O'Neil", "李"]),
        text::ident(t)
    );
    let date = format!(
        "{} {} {} {:02}:{:02}:{:02} 20{:02} {}",
        t.pick(&["Mon", "Tue", "Wed", "Thu", "Fri", "Sat", "Sun"]),
        t.pick(&["Jan", "Feb", "Mar", "Apr", "May", "Jun", "Jul", "Aug", "Sep", "Oct", "Nov", "Dec"]),
        t.range(1, 28),
        t.below(24),
        t.below(60),
        t.below(60),
        t.range(10, 25),
        t.pick(&["+0000", "-0700", "+0530", "+0100"])
    );
    let mut message = Vec::new();
    let n = t.range(1, 4);
    let o = TextOpts { allow_tabs: false, allow_long: false, ..TextOpts::all() };
    for i in 0..n {
        if i == 1 {
            message.push(String::new());
        } else {
            let k = t.range(1, 6);
            message.push(text::code_tokens(t, k, &o));
        }
    }
    let mut diffstat = Vec::new();
    if !with_stat_for.is_empty() && t.chance(1, 3) {
        for p in with_stat_for {
            let n = t.range(1, 30);
            diffstat.push(format!(" {} | {} {}{}", p, n, "+".repeat(n.min(10) / 2 + 1), "-".repeat(n.min(10) / 2)));
        }
        diffstat.push(format!(" {} files changed, {} insertions(+), {} deletions(-)", with_stat_for.len(), t.below(50), t.below(50)));
    }
    Commit { hash, decoration, merge, author, date, message, diffstat }
}

pub fn gen_case(t: &mut Tape, o: &GenOpts) -> DiffCase {
    let n = t.range(1, o.max_items.max(1));
    let mut items: Vec<Item> = Vec::new();
    let mut sections: Vec<Section> = Vec::new();
    for _ in 0..n {
        sections.push(gen_section(t, o));
    }
    // commits: group sections under 0..k commit blocks
    if o.allow_commits && t.chance(1, 3) {
        let mut i = 0;
        while i < sections.len() {
            let take = t.range(1, sections.len() - i);
            let paths: Vec<String> = sections[i..i + take].iter().map(|s| s.new_path.clone()).collect();
            items.push(Item::Commit(gen_commit(t, &paths)));
            for s in &sections[i..i + take] {
                items.push(Item::Section(s.clone()));
            }
            i += take;
        }
    } else {
        for s in sections {
            items.push(Item::Section(s));
        }
    }
    DiffCase { items, final_newline: !t.chance(1, 12) }
}

// ---------------------------------------------------------------------------------------------
// rendering

fn path_line_suffix(p: &str) -> &'static str {
    // git appends a tab after a path containing a space in ---/+++ lines
    if p.contains(' ') {
        "\t"
    } else {
        ""
    }
}

pub fn render_section(sec: &Section, si: usize, out: &mut Vec<InLine>) {
    let push = |out: &mut Vec<InLine>, text: String, role: Role| out.push(InLine { text, role });
    let a = &sec.prefixes.0;
    let b = &sec.prefixes.1;
    let idx = |m: &str| format!("index {}..{} {}", &"1234567abcdef"[..7], &"89abcde012345"[..7], m).trim_end().to_string();
    match sec.kind {
        SK::PlainDiffU => {
            // `diff -ru dirA dirB` prints the command in front of every file's section
            if sec.old_mode == "ru" {
                push(out, format!("diff -ru {} {}", sec.old_path, sec.new_path), Role::DiffLine { sec: si });
            }
            // plain `diff -u old new`: no diff line
            push(out, format!("--- {}\t2024-01-02 03:04:05.000000000 +0100", sec.old_path), Role::MinusFile { sec: si });
            push(out, format!("+++ {}\t2024-01-02 03:04:06.000000000 +0100", sec.new_path), Role::PlusFile { sec: si });
        }
        SK::Combined => {
            push(out, format!("diff --cc {}", sec.new_path), Role::DiffLine { sec: si });
            push(out, "index 1234567,89abcde..fedcba9".to_string(), Role::Extended { sec: si });
            push(out, format!("--- a/{}{}", sec.old_path, path_line_suffix(&sec.old_path)), Role::MinusFile { sec: si });
            push(out, format!("+++ b/{}{}", sec.new_path, path_line_suffix(&sec.new_path)), Role::PlusFile { sec: si });
        }
        _ => {
            // a path holding octal escapes (`\303\274ber.txt`, see quote_paths) is written as git writes
            // it under core.quotePath (the default): between double quotes, in every header line
            let q = |prefix: &str, p: &str| if p.contains('\\') { format!("\"{}{}\"", prefix, p) } else { format!("{}{}", prefix, p) };
            push(out, format!("diff --git {} {}", q(a, &sec.old_path), q(b, &sec.new_path)), Role::DiffLine { sec: si });
            match sec.kind {
                SK::Added | SK::BinaryAdded | SK::EmptyNew => {
                    push(out, format!("new file mode {}", sec.new_mode), Role::FileOp { sec: si });
                    push(out, "index 0000000..89abcde".to_string(), Role::Extended { sec: si });
                }
                SK::Deleted | SK::BinaryDeleted | SK::EmptyDeleted => {
                    push(out, format!("deleted file mode {}", sec.old_mode), Role::FileOp { sec: si });
                    push(out, "index 89abcde..0000000".to_string(), Role::Extended { sec: si });
                }
                SK::RenamedPure | SK::RenamedChanged | SK::RenamedBinary => {
                    push(out, format!("similarity index {}%", if sec.kind == SK::RenamedPure { 100 } else { 87 }), Role::Extended { sec: si });
                    push(out, format!("rename from {}", q("", &sec.old_path)), Role::RenameCopy { sec: si });
                    push(out, format!("rename to {}", q("", &sec.new_path)), Role::RenameCopy { sec: si });
                    if sec.kind != SK::RenamedPure {
                        push(out, idx(&sec.new_mode), Role::Extended { sec: si });
                    }
                }
                SK::CopiedPure | SK::CopiedChanged | SK::CopiedBinary => {
                    push(out, format!("similarity index {}%", if sec.kind == SK::CopiedPure { 100 } else { 70 }), Role::Extended { sec: si });
                    push(out, format!("copy from {}", q("", &sec.old_path)), Role::RenameCopy { sec: si });
                    push(out, format!("copy to {}", q("", &sec.new_path)), Role::RenameCopy { sec: si });
                    if sec.kind != SK::CopiedPure {
                        push(out, idx(&sec.new_mode), Role::Extended { sec: si });
                    }
                }
                SK::ModeOnly | SK::ModeChanged => {
                    push(out, format!("old mode {}", sec.old_mode), Role::Mode { sec: si });
                    push(out, format!("new mode {}", sec.new_mode), Role::Mode { sec: si });
                    if sec.kind == SK::ModeChanged {
                        push(out, idx(""), Role::Extended { sec: si });
                    }
                }
                _ => {
                    push(out, idx(&sec.new_mode), Role::Extended { sec: si });
                }
            }
            match sec.kind {
                SK::BinaryModified | SK::RenamedBinary | SK::CopiedBinary => push(out, format!("Binary files {} and {} differ", q(a, &sec.old_path), q(b, &sec.new_path)), Role::Binary { sec: si }),
                SK::BinaryAdded => push(out, format!("Binary files /dev/null and {} differ", q(b, &sec.new_path)), Role::Binary { sec: si }),
                SK::BinaryDeleted => push(out, format!("Binary files {} and /dev/null differ", q(a, &sec.old_path)), Role::Binary { sec: si }),
                _ => {}
            }
            if sec.kind.has_hunks() {
                let m = if sec.kind == SK::Added { "/dev/null".to_string() } else { format!("{}{}", q(a, &sec.old_path), path_line_suffix(&sec.old_path)) };
                let p = if sec.kind == SK::Deleted { "/dev/null".to_string() } else { format!("{}{}", q(b, &sec.new_path), path_line_suffix(&sec.new_path)) };
                push(out, format!("--- {}", m), Role::MinusFile { sec: si });
                push(out, format!("+++ {}", p), Role::PlusFile { sec: si });
            }
        }
    }
    for (hi, h) in sec.hunks.iter().enumerate() {
        push(out, h.header.clone(), Role::HunkHeader { sec: si, hunk: hi });
        let region = |out: &mut Vec<InLine>, c: &Conflict| {
            let mut k = 0;
            let mut marker = |out: &mut Vec<InLine>, text: String| {
                push(out, text, Role::Conflict { sec: si, hunk: hi, part: 0, idx: k });
                k += 1;
            };
            marker(out, format!("++<<<<<<< {}", c.ours_name));
            for (i, l) in c.ours.iter().enumerate() {
                push(out, format!("{}{}", l.prefix, l.text), Role::Conflict { sec: si, hunk: hi, part: 1, idx: i });
            }
            if let Some(b) = &c.base_name {
                marker(out, format!("++||||||| {}", b));
                for (i, l) in c.base.iter().enumerate() {
                    push(out, format!("{}{}", l.prefix, l.text), Role::Conflict { sec: si, hunk: hi, part: 2, idx: i });
                }
            }
            marker(out, "++=======".to_string());
            for (i, l) in c.theirs.iter().enumerate() {
                push(out, format!("{}{}", l.prefix, l.text), Role::Conflict { sec: si, hunk: hi, part: 3, idx: i });
            }
            marker(out, format!("++>>>>>>> {}", c.theirs_name));
        };
        for (li, l) in h.lines.iter().enumerate() {
            if let Some(c) = h.conflict.as_ref().filter(|c| c.at == li) {
                region(out, c);
            }
            push(out, format!("{}{}", l.prefix, l.text), Role::Hunk { sec: si, hunk: hi, idx: li, kind: l.kind });
            if l.no_newline_after {
                push(out, "\\ No newline at end of file".to_string(), Role::NoNewline { sec: si, hunk: hi });
            }
        }
        if let Some(c) = h.conflict.as_ref().filter(|c| c.at >= h.lines.len()) {
            region(out, c);
        }
    }
}

pub fn render_commit(c: &Commit, out: &mut Vec<InLine>) {
    let push = |out: &mut Vec<InLine>, text: String, role: Role| out.push(InLine { text, role });
    push(out, format!("commit {}{}", c.hash, c.decoration), Role::CommitLine);
    if let Some(m) = &c.merge {
        push(out, format!("Merge: {}", m), Role::CommitMeta);
    }
    push(out, format!("Author: {}", c.author), Role::CommitMeta);
    push(out, format!("Date:   {}", c.date), Role::CommitMeta);
    push(out, String::new(), Role::Blank);
    for m in &c.message {
        if m.is_empty() {
            push(out, String::new(), Role::Blank);
        } else {
            push(out, format!("    {}", m), Role::CommitMsg);
        }
    }
    if !c.diffstat.is_empty() {
        push(out, String::new(), Role::Blank);
        for d in &c.diffstat {
            push(out, d.clone(), Role::DiffStat);
        }
    }
    push(out, String::new(), Role::Blank);
}

impl DiffCase {
    pub fn sections(&self) -> Vec<&Section> {
        self.items
            .iter()
            .filter_map(|i| if let Item::Section(s) = i { Some(s) } else { None })
            .collect()
    }

    pub fn render(&self) -> Vec<InLine> {
        let mut out = Vec::new();
        let mut si = 0;
        for it in &self.items {
            match it {
                Item::Commit(c) => render_commit(c, &mut out),
                Item::Section(s) => {
                    render_section(s, si, &mut out);
                    si += 1;
                }
                Item::Free(ls) => {
                    for l in ls {
                        out.push(InLine { text: l.clone(), role: Role::Free });
                    }
                }
            }
        }
        out
    }

    pub fn bytes(&self) -> Vec<u8> {
        lines_to_bytes(&self.render(), self.final_newline)
    }
}

pub fn lines_to_bytes(lines: &[InLine], final_newline: bool) -> Vec<u8> {
    let mut b = Vec::new();
    for (i, l) in lines.iter().enumerate() {
        b.extend_from_slice(l.text.as_bytes());
        if i + 1 < lines.len() || final_newline {
            b.push(b'\n');
        }
    }
    b
}

/// a whole plain `diff -u` / `diff -ru` stream
pub fn gen_plain_case(t: &mut Tape, o: &GenOpts) -> DiffCase {
    let n = t.range(1, o.max_items.min(3).max(1));
    // output of a recursive diff (`diff -ru a b`): every section starts with a `diff -ru` line
    let recursive = t.chance(1, 3);
    let mut items = Vec::new();
    for _ in 0..n {
        let mut s = gen_section_of_kind(t, o, SK::Modified);
        s.kind = SK::PlainDiffU;
        if recursive {
            s.old_mode = "ru".to_string();
        }
        let mut p2 = text::path(t, &PathOpts { allow_space: false, ..o.paths });
        if p2 == s.old_path {
            p2 = format!("new_{}", p2);
        }
        s.old_path = s.old_path.replace(' ', "_");
        s.new_path = p2;
        // two consecutive sections comparing the same pair of names (concatenated patches of one
        // file): each is a section of its own, with its own header
        if let Some(Item::Section(prev)) = items.last() {
            if t.fork(12).chance(1, 5) {
                s.old_path = prev.old_path.clone();
                s.new_path = prev.new_path.clone();
            }
        }
        items.push(Item::Section(s));
    }
    DiffCase { items, final_newline: true }
}
