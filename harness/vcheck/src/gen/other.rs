//! Simple grep / blame / ripgrep-json streams (used by C03; the oracle-grade generators for C16
//! and C17 live in props/c16.rs and props/c17.rs).
use super::text::{self, PathOpts, TextOpts};
use crate::tape::Tape;

pub fn blame_stream(t: &mut Tape) -> Vec<u8> {
    let n = t.range(1, 12);
    let ncommits = t.range(1, 4);
    let commits: Vec<(String, String, String)> = (0..ncommits)
        .map(|_| {
            let boundary = if t.chance(1, 6) { "^" } else { "" };
            let len = *t.pick(&[8usize, 7, 12, 40, 4]);
            let hash = format!("{}{}", boundary, text::hex(t, len));
            let author = t.pick(&["Dan Davison", "Ann", "李 雷", "Eve (work)", "a  b", "Ünï Cödé", "x"]).to_string();
            let ts = format!(
                "20{:02}-{:02}-{:02} {:02}:{:02}:{:02} {}",
                t.range(10, 25), t.range(1, 12), t.range(1, 28), t.below(24), t.below(60), t.below(60),
                t.pick(&["+0000", "-0700", "+0530", "+1400", "-1200"])
            );
            (hash, author, ts)
        })
        .collect();
    let o = TextOpts::all();
    let mut out = String::new();
    let start = *t.pick(&[1usize, 0, 9, 99, 999, 123456]);
    for i in 0..n {
        let c = &commits[t.below(commits.len())];
        let fname = if t.chance(1, 6) { format!(" {}", text::path(t, &PathOpts::plain())) } else { String::new() };
        out.push_str(&format!("{}{} ({:<12} {} {:>3}) {}\n", c.0, fname, c.1, c.2, start + i, text::content(t, &o)));
    }
    out.into_bytes()
}

pub fn grep_stream(t: &mut Tape) -> Vec<u8> {
    let nfiles = t.range(1, 3);
    let o = TextOpts::all();
    let mut out = String::new();
    let coloured = t.chance(1, 3);
    for _ in 0..nfiles {
        let p = text::path(t, &PathOpts::all());
        let n = t.range(1, 6);
        let mut ln = *t.pick(&[1usize, 0, 7, 99, 1000]);
        for _ in 0..n {
            let sep = *t.pick(&[":", "-", "="]);
            let code = text::content(t, &o);
            let with_ln = !t.chance(1, 5);
            if coloured {
                out.push_str(&format!("\x1b[35m{}\x1b[m\x1b[36m{}\x1b[m", p, sep));
                if with_ln {
                    out.push_str(&format!("\x1b[32m{}\x1b[m\x1b[36m{}\x1b[m", ln, sep));
                }
                out.push_str(&code.replacen("foo", "\x1b[1;31mfoo\x1b[m", 1));
            } else {
                out.push_str(&p);
                out.push_str(sep);
                if with_ln {
                    out.push_str(&format!("{}{}", ln, sep));
                }
                out.push_str(&code);
            }
            out.push('\n');
            ln += t.range(0, 3);
        }
        if t.chance(1, 3) {
            out.push_str("--\n");
        }
    }
    out.into_bytes()
}

fn json_str(s: &str) -> String {
    serde_json::to_string(s).unwrap()
}

pub fn rg_json_stream(t: &mut Tape) -> Vec<u8> {
    let nfiles = t.range(1, 2);
    let o = TextOpts::all();
    let mut out = String::new();
    for _ in 0..nfiles {
        let p = text::path(t, &PathOpts::all());
        out.push_str(&format!("{{\"type\":\"begin\",\"data\":{{\"path\":{{\"text\":{}}}}}}}\n", json_str(&p)));
        let n = t.range(1, 5);
        let mut ln = t.range(0, 50);
        for _ in 0..n {
            // (now and then a multi-line record, as rg --multiline writes them)
            let code = if t.chance(1, 8) { format!("{}\n{}\n", text::content(t, &o), text::content(t, &o)) } else { format!("{}\n", text::content(t, &o)) };
            let is_match = t.chance(2, 3);
            let mut subs = Vec::new();
            if is_match {
                let k = t.range(0, 2);
                for _ in 0..k {
                    let a = t.below(code.len() + 3);
                    let b = a + t.below(6);
                    subs.push(format!("{{\"match\":{{\"text\":\"x\"}},\"start\":{},\"end\":{}}}", a, b));
                }
            }
            out.push_str(&format!(
                "{{\"type\":\"{}\",\"data\":{{\"path\":{{\"text\":{}}},\"lines\":{{\"text\":{}}},\"line_number\":{},\"absolute_offset\":{},\"submatches\":[{}]}}}}\n",
                if is_match { "match" } else { "context" }, json_str(&p), json_str(&code), ln, t.below(10000), subs.join(",")
            ));
            ln += t.range(1, 3);
        }
        out.push_str(&format!("{{\"type\":\"end\",\"data\":{{\"path\":{{\"text\":{}}},\"binary_offset\":null,\"stats\":{{\"elapsed\":{{\"secs\":0,\"nanos\":1,\"human\":\"0.0s\"}},\"searches\":1,\"searches_with_match\":1,\"bytes_searched\":1,\"bytes_printed\":1,\"matched_lines\":1,\"matches\":1}}}}}}\n", json_str(&p)));
    }
    if t.coin() {
        out.push_str("{\"data\":{\"elapsed_total\":{\"human\":\"0.1s\",\"nanos\":1,\"secs\":0},\"stats\":{\"bytes_printed\":1,\"bytes_searched\":1,\"elapsed\":{\"human\":\"0.0s\",\"nanos\":1,\"secs\":0},\"matched_lines\":1,\"matches\":1,\"searches\":1,\"searches_with_match\":1}},\"type\":\"summary\"}\n");
    }
    out.into_bytes()
}
