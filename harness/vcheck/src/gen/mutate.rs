//! Structured mutators for C03: turn well-formed streams into malformed/hostile ones.
use crate::tape::Tape;

fn split_lines(b: &[u8]) -> Vec<Vec<u8>> {
    b.split(|c| *c == b'\n').map(|l| l.to_vec()).collect()
}
fn join_lines(l: &[Vec<u8>]) -> Vec<u8> {
    l.join(&b'\n')
}

pub const STRAY: &[&[u8]] = &[
    b"\x1b[31m", b"\x1b[0m", b"\x1b[m", b"\x1b[1;32m", b"\x1b[38;5;1m", b"\x1b[38;2;1;2;3m", b"\x1b[", b"\x1b", b"\x1b]8;;http://x\x1b\\",
    b"\x1b]8;;\x1b\\", b"\x1b]0;title\x07", b"\x1b]8;;unterminated", b"\x1b[?25l", b"\x1b[ q", b"\x1b[1 q\xc3\xa9", b"\x1b[0K", b"\x1b[2J", b"\x1bP+q\x1b\\",
    b"\x1b(B", b"\x9b31m", b"\x1b[;;;m", b"\x1b[999999999999m", b"\x1b[38;5m", b"\x1b[38;2;1m", b"\x1b[48;5;300m", b"\r", b"\r\n", b"\0", b"\x07", b"\x08",
    b"\xff", b"\xc3", b"\xe2\x82", b"\xf0\x9f\x98", b"\xed\xa0\x80", b"\xef\xbb\xbf", b"\x1b[1m\xe4\xb8\x96\x1b[m",
    b"\x1b[38:2:1:2:3m", b"\x1b[38:2::1:2:3m", b"\x1b[48:5:17m", b"\x1b[38:2:1m", b"\x1b[38:2m", b"\x1b[48:2:1:2m", b"\x1b[38:5m", b"\x1b[38:m", b"\x1b[4:3m", b"\x1b[58:2::1:2:3m", b"\x1b[38;2;1;2m", b"\x1b[48;5m",
];

pub fn mutate(t: &mut Tape, input: Vec<u8>) -> (Vec<u8>, &'static str) {
    let mut lines = split_lines(&input);
    if lines.is_empty() {
        lines.push(Vec::new());
    }
    let n = lines.len();
    let which = t.weighted(&[3, 3, 3, 3, 3, 3, 4, 4, 2, 2, 2, 1, 2, 3, 2, 2]);
    let name = match which {
        0 => {
            // truncate the stream at a byte position
            let cut = t.below(input.len() + 1);
            return (input[..cut].to_vec(), "truncate-bytes");
        }
        1 => {
            let cut = t.below(n + 1);
            lines.truncate(cut);
            "truncate-lines"
        }
        2 => {
            let i = t.below(n);
            let l = lines[i].clone();
            let j = t.below(n + 1);
            lines.insert(j, l);
            "duplicate-line"
        }
        3 => {
            let i = t.below(n);
            lines.remove(i);
            "delete-line"
        }
        4 => {
            let i = t.below(n);
            let j = t.below(n);
            lines.swap(i, j);
            "swap-lines"
        }
        5 => {
            // splice: move a block elsewhere
            let i = t.below(n);
            let len = t.range(1, 4).min(n - i);
            let block: Vec<Vec<u8>> = lines.drain(i..i + len).collect();
            let j = t.below(lines.len() + 1);
            for (k, l) in block.into_iter().enumerate() {
                lines.insert(j + k, l);
            }
            "splice"
        }
        6 => {
            // byte flips / inserts within a line
            let i = t.below(n);
            let l = &mut lines[i];
            let k = t.range(1, 4);
            for _ in 0..k {
                let pos = t.below(l.len() + 1);
                match t.weighted(&[2, 2, 1]) {
                    0 if pos < l.len() => l[pos] = t.below(256) as u8,
                    1 if pos < l.len() => {
                        l.remove(pos);
                    }
                    _ => l.insert(pos, *t.pick(&[b' ', b'@', b'-', b'+', b',', b':', b'\t', b'0', b'9', b'{', b'"', b'\\', 0x80, 0xff, 0x1b, b'(', b')'])),
                }
            }
            "byte-edit"
        }
        7 => {
            // stray escape sequences / odd bytes
            let i = t.below(n);
            let k = t.range(1, 3);
            for _ in 0..k {
                let s = *t.pick(STRAY);
                let l = &mut lines[i];
                let pos = match t.weighted(&[2, 2, 3]) {
                    0 => 0,
                    1 => l.len(),
                    _ => t.below(l.len() + 1),
                };
                for (q, b) in s.iter().enumerate() {
                    l.insert(pos + q, *b);
                }
            }
            "stray-escape"
        }
        8 => {
            // number inflation
            let i = t.below(n);
            let l = String::from_utf8_lossy(&lines[i]).into_owned();
            let big = *t.pick(&["18446744073709551615", "18446744073709551616", "99999999999999999999999", "9223372036854775807", "4294967296", "0", "00000000000000000000001"]);
            let mut out = String::new();
            let mut replaced = false;
            let mut chars = l.chars().peekable();
            let skip = t.below(3);
            let mut seen = 0;
            while let Some(c) = chars.next() {
                if c.is_ascii_digit() && !replaced {
                    let mut num = c.to_string();
                    while let Some(d) = chars.peek() {
                        if d.is_ascii_digit() {
                            num.push(*d);
                            chars.next();
                        } else {
                            break;
                        }
                    }
                    if seen == skip {
                        out.push_str(big);
                        replaced = true;
                    } else {
                        out.push_str(&num);
                    }
                    seen += 1;
                } else {
                    out.push(c);
                }
            }
            lines[i] = out.into_bytes();
            "inflate-number"
        }
        9 => {
            // CRLF everywhere or on one line
            if t.coin() {
                for l in lines.iter_mut() {
                    l.push(b'\r');
                }
            } else {
                let i = t.below(n);
                lines[i].push(b'\r');
            }
            "crlf"
        }
        10 => {
            // unterminated conflict region / stray conflict markers
            let i = t.below(n + 1);
            let m: &[u8] = *t.pick(&[&b"++<<<<<<< HEAD"[..], b"<<<<<<< HEAD", b"++=======", b"++>>>>>>> x", b"++||||||| base", b" +<<<<<<< ours", b"+ >>>>>>> theirs"]);
            lines.insert(i, m.to_vec());
            "conflict-marker"
        }
        11 => {
            // a very long line
            let i = t.below(n);
            let unit: &[u8] = *t.pick(&[&b"x"[..], b"ab ", b"\xe4\xb8\x96", b"\t", b"\x1b[31mx\x1b[m", b"a\xcc\x81"]);
            // (wrapping cost is quadratic in the line length: sizes are bounded so that the
            // legitimate cost stays far below the watchdog; see DESIGN C03 "Not reached")
            let reps = *t.pick(&[200usize, 1000, 3000, 3001, 6000]);
            let reps = if unit == b"\t" { reps.min(400) } else { reps };
            let mut l = lines[i].clone();
            for _ in 0..reps / unit.len().max(1) + 1 {
                l.extend_from_slice(unit);
            }
            lines[i] = l;
            "long-line"
        }
        12 => {
            // insert a header-ish line somewhere
            let i = t.below(n + 1);
            let m: &[u8] = *t.pick(&[
                &b"@@ -1 +1 @@"[..], b"@@ foo @@", b"@@@ -1,2 -3,4 +5,6 @@@", b"@@ -0,0 +0,0 @@", b"@@ -0 +0 @@", b"@@@ -0,0 -0,0 +0,0 @@@", b"@@ -1,0 +0,0 @@", b"@@ -1,2 @@", b"@@", b"@@ @@", b"@@ -a,b +c,d @@", b"diff --git ", b"diff --git a b", b"diff --git a/x b/y z",
                b"--- ", b"+++ ", b"--- a/x", b"+++ b/y\t", b"rename from ", b"rename to ", b"copy from", b"old mode ", b"new mode 1", b"Binary files ", b"Binary files a and b differ",
                b"commit ", b"commit abc", b"Submodule ", b"Submodule x 123..456:", b"Submodule x contains modified content", b"index ", b"diff --cc ", b"diff --combined x", b"Only in ", b"Only in a: b",
                b"similarity index", b"new file mode ", b"deleted file mode ", b" 1 file changed", b" a | 3 +-", b"{}", b"{\"type\":\"match\"}", b"{\"type\":\"match\",\"data\":{}}",
            ]);
            lines.insert(i, m.to_vec());
            "insert-header"
        }
        13 => {
            // replace the marker column / first byte of a line
            let i = t.below(n);
            if !lines[i].is_empty() {
                lines[i][0] = *t.pick(&[b'-', b'+', b' ', b'\\', b'@', b'd', 0xe4, b'\t', 0x1b]);
            }
            "first-byte"
        }
        14 => {
            // rewrite all coordinates of a hunk header with small / zero values
            let heads: Vec<usize> = (0..n).filter(|i| lines[*i].starts_with(b"@@")).collect();
            if let Some(&i) = heads.get(t.below(heads.len().max(1))) {
                let l = String::from_utf8_lossy(&lines[i]).into_owned();
                let end = l[2..].find("@@").map(|p| p + 2).unwrap_or(l.len());
                let mut out = String::new();
                let mut in_num = false;
                let vals = ["0", "0", "0", "1", "2", "10"];
                let all_zero = t.chance(1, 3);
                for (k, c) in l.char_indices() {
                    if k < end && c.is_ascii_digit() {
                        if !in_num {
                            out.push_str(if all_zero { "0" } else { t.ps(&vals) });
                            in_num = true;
                        }
                    } else {
                        in_num = false;
                        out.push(c);
                    }
                }
                lines[i] = out.into_bytes();
            }
            "hunk-header-small-numbers"
        }
        _ => {
            // drop all newlines in a region: glue lines
            let i = t.below(n);
            if i + 1 < lines.len() {
                let nxt = lines.remove(i + 1);
                lines[i].extend_from_slice(&nxt);
            }
            "glue-lines"
        }
    };
    (join_lines(&lines), name)
}

pub fn arbitrary_bytes(t: &mut Tape) -> Vec<u8> {
    let n = match t.weighted(&[4, 3, 1]) {
        0 => t.range(0, 40),
        1 => t.range(41, 400),
        _ => t.range(401, 3000),
    };
    let mut v = Vec::with_capacity(n);
    let mode = t.weighted(&[2, 2, 2]);
    for _ in 0..n {
        let b = match mode {
            0 => t.below(256) as u8,
            1 => *t.pick(b"\n\n -+@\\:=0123456789abcdef\x1b[;m(){}\"\t,."),
            _ => {
                if t.chance(1, 8) {
                    b'\n'
                } else {
                    t.range(0x20, 0x7e) as u8
                }
            }
        };
        v.push(b);
    }
    v
}
