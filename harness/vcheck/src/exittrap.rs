//! delta's `fatal()` ends in process::exit(2).  To keep a worker alive (and to attribute the
//! exit to the case in flight) the executable defines its own `exit` symbol: references to
//! `exit` from the statically linked std bind to it.  While a case is in flight the call is
//! turned into a panic carrying the status and what delta printed to stderr; otherwise the
//! process really exits.
use std::cell::Cell;
use std::os::raw::c_int;

thread_local! {
    static IN_CASE: Cell<bool> = const { Cell::new(false) };
    static STDERR_MARK: Cell<i64> = const { Cell::new(0) };
}
static mut STDERR_MEMFD: c_int = -1;

pub struct ExitTrap {
    pub code: i32,
    pub stderr: String,
}

/// Redirect fd 2 into an in-memory file so that what delta prints before exiting can be read.
pub fn capture_stderr() {
    if std::env::var("VCHECK_NO_CAPTURE").is_ok() {
        return;
    }
    unsafe {
        let fd = libc::memfd_create(b"vcheck-stderr\0".as_ptr() as *const libc::c_char, 0);
        if fd >= 0 {
            libc::dup2(fd, 2);
            STDERR_MEMFD = fd;
        }
    }
}

pub fn enter_case() {
    IN_CASE.with(|c| c.set(true));
    unsafe {
        if STDERR_MEMFD >= 0 {
            let end = libc::lseek(STDERR_MEMFD, 0, libc::SEEK_END);
            // keep the in-memory file small
            if end > 1 << 20 {
                libc::ftruncate(STDERR_MEMFD, 0);
                libc::lseek(STDERR_MEMFD, 0, libc::SEEK_SET);
                STDERR_MARK.with(|m| m.set(0));
            } else {
                STDERR_MARK.with(|m| m.set(end));
            }
        }
    }
}

pub fn leave_case() {
    IN_CASE.with(|c| c.set(false));
}

pub fn stderr_since_mark() -> String {
    unsafe {
        if STDERR_MEMFD < 0 {
            return String::new();
        }
        let mark = STDERR_MARK.with(|m| m.get());
        let end = libc::lseek(STDERR_MEMFD, 0, libc::SEEK_END);
        if end <= mark {
            return String::new();
        }
        let n = ((end - mark) as usize).min(4000);
        let mut buf = vec![0u8; n];
        let r = libc::pread(STDERR_MEMFD, buf.as_mut_ptr() as *mut libc::c_void, n, mark);
        if r <= 0 {
            return String::new();
        }
        buf.truncate(r as usize);
        String::from_utf8_lossy(&buf).into_owned()
    }
}

/// called (outside a case) right before the process really exits; the libFuzzer target uses it
/// to write its final statistics, because this `exit` skips atexit handlers
pub static AT_EXIT: std::sync::OnceLock<fn()> = std::sync::OnceLock::new();

#[no_mangle]
pub extern "C-unwind" fn exit(code: c_int) -> ! {
    let in_case = IN_CASE.try_with(|c| c.get()).unwrap_or(false);
    if in_case {
        IN_CASE.with(|c| c.set(false));
        std::panic::panic_any(ExitTrap { code, stderr: stderr_since_mark() });
    }
    if let Some(f) = AT_EXIT.get() {
        f();
    }
    unsafe { libc::_exit(code) }
}

/// Handler for delta's verification hook in fatal(): while a case is in flight turn the fatal
/// error into a panic (std::process::exit can be intercepted only once per process, because std
/// aborts on a second exit from the same thread).
pub fn fatal_hook(msg: &str) {
    let in_case = IN_CASE.try_with(|c| c.get()).unwrap_or(false);
    if in_case {
        std::panic::panic_any(ExitTrap { code: 2, stderr: msg.to_string() });
    }
}
