// The system under test, compiled as a library: delta has no `lib` target, so this crate's root
// *is* delta's main.rs (nested `mod x;` items resolve relative to $DUT_SRC), plus one module of
// our own that exposes a tiny, stable API to the `vcheck` crate. Built in non-test mode, so it
// runs exactly the cfg(not(test)) code the shipped binary runs.
#![allow(dead_code, unused_imports, unused_variables, clippy::all)]

include!(concat!(env!("DUT_SRC"), "/main.rs"));

#[path = "../verif_api.rs"]
pub mod verif_api;
