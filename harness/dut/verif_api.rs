//! The only surface of delta the verification harness touches.  Everything else is observed
//! through rendered bytes.
use std::ffi::OsString;
use std::io::{BufRead, Write};
use std::path::PathBuf;

use bytelines::ByteLinesReader;

use crate::cli;
use crate::config::Config;
use crate::env::DeltaEnv;

#[derive(Clone, Debug, Default, PartialEq, Eq, Hash)]
pub struct EnvSpec {
    pub bat_theme: Option<String>,
    pub colorterm: Option<String>,
    pub current_dir: Option<String>,
    pub features: Option<String>,
    pub git_config_parameters: Option<String>,
    pub git_prefix: Option<String>,
    pub hostname: Option<String>,
    pub navigate: Option<String>,
    pub delta_pager: Option<String>,
    pub pager: Option<String>,
    pub max_line_distance_naive: Option<String>,
}

impl EnvSpec {
    fn to_delta_env(&self) -> DeltaEnv {
        DeltaEnv {
            bat_theme: self.bat_theme.clone(),
            colorterm: self.colorterm.clone(),
            current_dir: self.current_dir.as_ref().map(PathBuf::from),
            experimental_max_line_distance_for_naively_paired_lines: self
                .max_line_distance_naive
                .clone(),
            features: self.features.clone(),
            git_config_parameters: self.git_config_parameters.clone(),
            git_prefix: self.git_prefix.clone(),
            hostname: self.hostname.clone(),
            navigate: self.navigate.clone(),
            pagers: (self.delta_pager.clone(), self.pager.clone()),
        }
    }
}

/// Fix "who called delta" for this process (see DESIGN §2.7).  Must be called before the first
/// Session is built; delta caches what it derives from it.
pub fn set_calling_process(argv: &[String]) {
    crate::utils::process::set_calling_process(argv);
}

pub fn start_determining_calling_process_in_thread() {
    crate::utils::process::start_determining_calling_process_in_thread();
}

/// Debug rendering of the calling process delta currently reports (blocks while Pending).
pub fn calling_process_debug() -> String {
    format!("{:?}", &*crate::utils::process::calling_process())
}

/// Install a handler that is called (with the message) when delta reaches `fatal()`, before it
/// exits.  The handler may panic to keep the process alive.
pub fn set_fatal_hook(f: fn(&str)) {
    let _ = crate::VERIF_FATAL_HOOK.set(f);
}

pub struct Session {
    config: Config,
}

/// `args` excludes argv[0].  Only option sets delta accepts may be passed: a rejected one ends
/// in `fatal()` = process::exit(2).
pub fn build(args: &[String], env: &EnvSpec) -> Session {
    let mut argv: Vec<OsString> = vec![OsString::from("delta")];
    argv.extend(args.iter().map(OsString::from));
    let denv = env.to_delta_env();
    let assets = crate::utils::bat::assets::load_highlighting_assets();
    let (_call, opt) = cli::Opt::from_args_and_git_config(argv, &denv, assets);
    let opt = opt.expect("help/version not supported in-process");
    Session {
        config: Config::from(opt),
    }
}

impl Session {
    pub fn run(&self, input: &[u8]) -> std::io::Result<Vec<u8>> {
        let mut out: Vec<u8> = Vec::with_capacity(input.len() * 4 + 256);
        crate::delta::delta(input.byte_lines(), &mut out, &self.config)?;
        Ok(out)
    }

    pub fn run_stream<R: BufRead>(&self, reader: R, writer: &mut dyn Write) -> std::io::Result<()> {
        crate::delta::delta(reader.byte_lines(), writer, &self.config)
    }

    pub fn show_config(&self) -> String {
        let mut out: Vec<u8> = Vec::new();
        crate::subcommands::show_config::show_config(&self.config, &mut out).unwrap();
        String::from_utf8_lossy(&out).into_owned()
    }

    pub fn available_terminal_width(&self) -> usize {
        self.config.available_terminal_width
    }
}
